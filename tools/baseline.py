#!/usr/bin/env python3
"""Runs the pinned test suite in a repo dir (default /repo) and compares with BASELINE.json stable_pass.
Exit 0 iff every stable test passes."""
import json, subprocess, sys, os
d = sys.argv[1] if len(sys.argv) > 1 else '/repo'
env = dict(os.environ, GOFLAGS='-mod=mod', GOPROXY='off', GOSUMDB='off', GOTOOLCHAIN='local')
p = subprocess.run(['go','test','-mod=mod','-json','-vet=off','-count=1','-timeout','25m','./...'], cwd=d, env=env, capture_output=True, text=True)
passed=set()
for l in p.stdout.splitlines():
    try: e=json.loads(l)
    except Exception: continue
    if e.get('Action')=='pass' and e.get('Test'):
        passed.add(f"{e['Package']}::{e['Test']}")
base=json.load(open('/root/.vp/BASELINE.json'))['stable_pass']
missing=[t for t in base if t not in passed]
print(f"stable={len(base)} passed_now={len(passed)} missing={len(missing)}")
for m in missing[:30]: print("  MISSING", m)
if not passed:
    print(p.stdout[-2000:], p.stderr[-2000:])
sys.exit(1 if missing else 0)
