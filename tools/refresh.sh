#!/bin/sh
# Re-run every claimed quick check on the unchanged tree (refreshing /verif/evidence) and validate.
cd /verif
st=$(git -C /repo status --porcelain --untracked-files=no)
[ -n "$st" ] && { echo "/repo is dirty: $st"; exit 1; }
fail=0
for p in $(python3 -c "import json;print(' '.join(c['property_id'] for c in json.load(open('MANIFEST.json'))['checks']))"); do
  out=$(timeout 1500 ./bin/govc check $p --tier quick 2>&1); rc=$?
  echo "$out" | tail -n1 | cut -c1-170
  [ $rc -ne 0 ] && { echo "  !! $p exit $rc"; fail=1; }
done
python3-vt - <<'PY'
import json,jsonschema,glob
m=json.load(open('/verif/MANIFEST.json')); jsonschema.validate(m,json.load(open('/root/.vp/MANIFEST.schema.json')))
es=json.load(open('/root/.vp/EVIDENCE.schema.json'))
for c in m['checks']:
    e=json.load(open(c['evidence_file'])); jsonschema.validate(e,es)
    cov=e['coverage']
    assert cov['obligations']==cov['discharged'], (c['property_id'],cov['obligations'],cov['discharged'])
print('manifest and evidence valid')
PY
exit $fail
