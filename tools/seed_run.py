#!/usr/bin/env python3
"""Apply a kept seeded change to /repo, run the given property checks (quick), undo it.
usage: seed_run.py <name> [Cnn ...]   (default: the property named in meta.json)"""
import json, os, subprocess, sys
name = sys.argv[1]
d = f'/verif/seeded/{name}'
meta = json.load(open(f'{d}/meta.json'))
props = sys.argv[2:] or [meta['property']]
st = subprocess.run('git -C /repo status --porcelain --untracked-files=no', shell=True, capture_output=True, text=True).stdout.strip()
if st: sys.exit('/repo is dirty: ' + st)
subprocess.run(f'git -C /repo apply {d}/patch.diff', shell=True, check=True)
res = {}
try:
    for p in props:
        r = subprocess.run(f'./bin/govc check {p} --tier quick', shell=True, cwd='/verif', capture_output=True, text=True)
        viol = [l for l in r.stdout.splitlines() if l.startswith('VIOLATION')]
        res[p] = {'exit': r.returncode, 'violations': len(viol), 'first': [v[:260] for v in viol[:4]], 'summary': [l for l in r.stdout.splitlines() if l.startswith('govc ')]}
finally:
    subprocess.run('git -C /repo checkout -- .', shell=True, check=True)
print(json.dumps({name: res}, indent=1))
meta.setdefault('checks_run', {}).update({p: {'exit': v['exit'], 'violations': v['violations'], 'first_violation': (v['first'] or [''])[0]} for p, v in res.items()})
json.dump(meta, open(f'{d}/meta.json', 'w'), indent=1)
