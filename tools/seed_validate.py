#!/usr/bin/env python3
"""Validate a seeded change produced by a sub-agent and keep it under /verif/seeded/<name>/.
usage: seed_validate.py <srcdir> <name>
Checks in a scratch worktree of /repo HEAD: patch applies+builds, stable baseline passes with it,
the demo fails with it and passes without it."""
import json, os, shutil, subprocess, sys
src, name = sys.argv[1], sys.argv[2]
env = dict(os.environ, GOFLAGS='-mod=mod', GOPROXY='off', GOSUMDB='off', GOTOOLCHAIN='local')
wt = f'/tmp/wt/val_{name}'
def sh(cmd, cwd=None, check=False):
    p = subprocess.run(cmd, shell=True, cwd=cwd, env=env, capture_output=True, text=True)
    if check and p.returncode != 0:
        print(p.stdout, p.stderr); sys.exit(f'FAILED: {cmd}')
    return p
subprocess.run(f'git -C /repo worktree remove --force {wt}', shell=True, capture_output=True)
sh(f'git -C /repo worktree add -q --detach {wt} HEAD', check=True)
shutil.copy('/repo/go.sum', wt)
ran = []
try:
    p = sh(f'git apply {src}/patch.diff', cwd=wt)
    if p.returncode != 0: sys.exit('patch does not apply: ' + p.stderr)
    p = sh('go build ./...', cwd=wt)
    if p.returncode != 0: sys.exit('does not build: ' + p.stderr)
    ran.append('git apply patch.diff && go build ./... : ok')
    p = sh(f'python3 /verif/tools/baseline.py {wt}')
    ran.append('stable baseline with patch: ' + p.stdout.strip().splitlines()[0])
    if p.returncode != 0: sys.exit('baseline fails with patch: ' + p.stdout)
    shutil.copy(f'{src}/demo_test.go', f'{wt}/zz_seeded_demo_test.go')
    p = sh("go test -mod=mod -vet=off -count=1 -timeout 120s -run 'TestSeeded' .", cwd=wt)
    ran.append(f'demo with patch: exit {p.returncode}')
    if p.returncode == 0: sys.exit('demo passes with the patch applied')
    sh(f'git apply -R {src}/patch.diff', cwd=wt, check=True)
    p = sh("go test -mod=mod -vet=off -count=1 -timeout 120s -run 'TestSeeded' .", cwd=wt)
    ran.append(f'demo without patch (current /repo HEAD): exit {p.returncode}')
    if p.returncode != 0: sys.exit('demo fails WITHOUT the patch on current HEAD: ' + p.stdout[-1500:])
finally:
    subprocess.run(f'git -C /repo worktree remove --force {wt}', shell=True, capture_output=True)
dst = f'/verif/seeded/{name}'
os.makedirs(dst, exist_ok=True)
shutil.copy(f'{src}/patch.diff', dst); shutil.copy(f'{src}/demo_test.go', dst)
meta = json.load(open(f'{src}/meta.json'))
out = {'property': meta.get('property'), 'summary': meta.get('summary'), 'needs': meta.get('needs'), 'files': meta.get('files'),
       'validated_by_me': ran, 'head_at_validation': subprocess.run('git -C /repo rev-parse --short HEAD', shell=True, capture_output=True, text=True).stdout.strip()}
json.dump(out, open(f'{dst}/meta.json', 'w'), indent=1)
print('KEPT', name, '|', meta.get('summary', '')[:150])
