#!/bin/sh
# Must-fail corpus: applies every kept seeded change to /repo in turn, runs the quick check of the property it
# was written against and reports whether a VIOLATION line was printed; /repo is restored after each.
# Expected misses are listed in DESIGN.md 14.3 (changes inside the byte-level helpers, seeds neutralised by repairs).
cd /verif
st=$(git -C /repo status --porcelain --untracked-files=no)
[ -n "$st" ] && { echo "/repo is dirty: $st"; exit 1; }
for d in seeded/*/; do
  s=$(basename "$d"); p=$(echo "$s" | cut -d- -f1)
  if git -C /repo apply --check "/verif/$d/patch.diff" 2>/dev/null; then
    n=$(timeout 1500 python3 tools/seed_run.py "$s" "$p" 2>&1 | grep -c '"VIOLATION')
    if [ "$n" -gt 0 ]; then echo "$s caught by $p"; else echo "$s MISSED by $p"; fi
  else
    echo "$s does not apply to the current tree (see its meta.json)"
  fi
done
git -C /repo status --porcelain --untracked-files=no
echo "NOTE: the evidence files now describe the last seeded run; run tools/refresh.sh to regenerate them on the unchanged tree."
