package main

// Loop invariants (contracts): filled in by contracts.go
type LoopSpec struct {
	Key string
	Inv []string // invariant expressions (contract language)
}

func (ex *Exec) execLoopInvariant(fr *frame, lp *loop, spec *LoopSpec, key string) {
	panic(unsupported("loop invariants not implemented yet: " + key))
}
