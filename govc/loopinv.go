package main

import (
	"fmt"
	"go/types"

	"golang.org/x/tools/go/ssa"
)

// execLoopInvariant cuts a loop with its contract: the invariant is established on entry (side
// obligation), assumed for arbitrary (havocked) loop state, the body is executed once, and the
// invariant is re-established on every back edge (side obligation). Exit edges continue from the
// havocked state, i.e. they know the invariant and the exit condition only.
func (ex *Exec) execLoopInvariant(fr *frame, lp *loop, spec *LoopSpec, key string) {
	h := lp.header
	outside := func(p *ssa.BasicBlock) bool { return !lp.body[p] }
	inside := func(p *ssa.BasicBlock) bool { return lp.body[p] }
	pre := ex.incoming(fr, h, outside)
	if pre == nil || pre.pc == TFalse {
		return
	}
	var bodyOrder []*ssa.BasicBlock
	for _, b := range fr.li.rpo {
		if lp.body[b] {
			bodyOrder = append(bodyOrder, b)
		}
	}
	var phis []*ssa.Phi
	for _, ins := range h.Instrs {
		if p, ok := ins.(*ssa.Phi); ok {
			phis = append(phis, p)
		} else {
			break
		}
	}
	ctxFor := func(st *State) *EvalCtx {
		vars := map[string]Value{}
		for _, p := range phis {
			if v, ok := st.env[p]; ok && p.Comment != "" {
				vars[p.Comment] = v
			}
		}
		// loop variables of the enclosing loops: name^, name^^, ...
		suffix := "^"
		for par := lp.parent; par != nil; par = par.parent {
			for _, ins := range par.header.Instrs {
				p, ok := ins.(*ssa.Phi)
				if !ok {
					break
				}
				if v, ok := st.env[p]; ok && p.Comment != "" {
					vars[p.Comment+suffix] = v
				}
			}
			suffix += "^"
		}
		return &EvalCtx{ex: ex, st: st, old: pre, fn: fr.fn, vars: vars, params: fr.params}
	}
	inv := func(st *State) *Term {
		c := ctxFor(st)
		var ts []*Term
		for _, e := range spec.Inv {
			ts = append(ts, c.term(e))
		}
		return And(ts...)
	}
	fnn := fnName(fr.fn)

	// 1. initiation
	s0 := pre.clone()
	ex.evalPhis(fr, h, s0, outside)
	ex.sideObls = append(ex.sideObls, SideObl{Name: fmt.Sprintf("%s/init", key), Hyp: pre.pc, Goal: inv(s0), Pos: ex.pos(h.Instrs[0].Pos())})

	// 2. which pre-existing heap objects does the body write? (dry run, effects discarded)
	written := ex.dryRunWrites(fr, lp, bodyOrder, pre, phis)

	// 3. havoc
	sH := pre.clone()
	ownedPhi := map[*ssa.Phi]bool{}
	for _, p := range phis {
		ex.objSeq++
		hv := ex.symValue(p.Type(), varNamer(fmt.Sprintf("%s.%s!%d", fnn, p.Comment, ex.objSeq)), false)
		// a loop-carried slice that enters the loop in memory this call allocated, and is only ever replaced by
		// such memory on the back edges (checked below), is still in memory this call allocated: ownership is
		// the one fact about slices that frame proofs need from an otherwise arbitrary loop state
		if sl, ok := hv.(*SliceVal); ok && spec.Auto {
			if iv, ok := s0.env[p].(*SliceVal); ok && ex.sliceOwned(iv) {
				for _, al := range sl.Alts {
					if al.O != nil {
						al.O.fresh = true
					}
				}
				ownedPhi[p] = true
			}
		}
		sH.env[p] = hv
	}
	for _, o := range written {
		sH.heap[o] = ex.havocContent(o, fnn)
	}
	sH.pc = And(pre.pc, inv(sH))
	ex.note(fmt.Sprintf("loop %s cut by its invariant (%d conjuncts); %d heap objects havocked", key, len(spec.Inv), len(written)))
	var decBefore *Term
	if spec.Decreases != nil {
		decBefore = ctxFor(sH).term(spec.Decreases)
	}

	// 4. one arbitrary iteration
	for _, b := range bodyOrder {
		for _, s := range b.Succs {
			delete(fr.edges, [2]int{b.Index, s.Index})
		}
	}
	ex.execBlock(fr, h, sH, func() {})
	ex.execBlocks(fr, bodyOrder, lp)

	// 5. preservation on every back edge
	for _, p := range h.Preds {
		if !inside(p) {
			continue
		}
		e := fr.edges[[2]int{p.Index, h.Index}]
		if e == nil || e.pc == TFalse {
			continue
		}
		sB := e.clone()
		only := func(q *ssa.BasicBlock) bool { return q == p }
		ex.evalPhis(fr, h, sB, only)
		for ph := range ownedPhi {
			if bv, ok := sB.env[ph].(*SliceVal); !ok || !ex.sliceOwned(bv) {
				ex.sideObls = append(ex.sideObls, SideObl{Name: fmt.Sprintf("%s/owned-slice-stays-owned@b%d/%s", key, p.Index, ph.Comment), Hyp: e.pc, Goal: TFalse, Pos: ex.pos(h.Instrs[0].Pos())})
			}
		}
		ex.sideObls = append(ex.sideObls, SideObl{Name: fmt.Sprintf("%s/preserve@b%d", key, p.Index), Hyp: e.pc, Goal: inv(sB), Pos: ex.pos(h.Instrs[0].Pos())})
		if decBefore != nil {
			after := ctxFor(sB).term(spec.Decreases)
			ex.sideObls = append(ex.sideObls, SideObl{Name: fmt.Sprintf("%s/decreases@b%d", key, p.Index), Hyp: e.pc,
				Goal: And(Ge(decBefore, IntLit(0)), Lt(after, decBefore)), Pos: ex.pos(h.Instrs[0].Pos())})
		}
		delete(fr.edges, [2]int{p.Index, h.Index})
	}
	// exit edges stay in fr.edges for the enclosing region
}

// dryRunWrites executes the loop once from an arbitrary state and reports the pre-existing heap
// objects it stores to; every effect of the run on the executor is rolled back.
func (ex *Exec) dryRunWrites(fr *frame, lp *loop, bodyOrder []*ssa.BasicBlock, pre *State, phis []*ssa.Phi) []*Obj {
	nP, nW, nC, nS, nA := len(ex.panics), len(ex.writes), len(ex.calls), len(ex.sideObls), len(ex.assumes)
	seqBefore := ex.objSeq
	savedEdges := map[[2]int]*State{}
	for k, v := range fr.edges {
		savedEdges[k] = v
	}
	savedNotes := map[string]bool{}
	for k := range ex.notes {
		savedNotes[k] = true
	}
	savedBounded := ex.bounded
	func() {
		s := pre.clone()
		for _, p := range phis {
			ex.objSeq++
			s.env[p] = ex.symValue(p.Type(), varNamer(fmt.Sprintf("dry.%s!%d", p.Comment, ex.objSeq)), false)
		}
		ex.execBlock(fr, lp.header, s, func() {})
		ex.execBlocks(fr, bodyOrder, lp)
	}()
	seen := map[*Obj]bool{}
	var res []*Obj
	for _, w := range ex.writes[nW:] {
		if w.O.id > seqBefore && w.O.fresh {
			continue // allocated inside the iteration
		}
		if !seen[w.O] {
			seen[w.O] = true
			res = append(res, w.O)
		}
	}
	ex.panics, ex.writes, ex.calls, ex.sideObls, ex.assumes = ex.panics[:nP], ex.writes[:nW], ex.calls[:nC], ex.sideObls[:nS], ex.assumes[:nA]
	ex.notes = savedNotes
	ex.bounded = savedBounded
	for k := range fr.edges {
		delete(fr.edges, k)
	}
	for k, v := range savedEdges {
		fr.edges[k] = v
	}
	return res
}

func (ex *Exec) havocContent(o *Obj, tag string) Value {
	ex.objSeq++
	nm := varNamer(fmt.Sprintf("%s.havoc!%d", tag, ex.objSeq))
	switch o.kind {
	case OSymArr:
		return ex.symValue(o.T, nm, true)
	case OConcArr:
		panic(unsupported("loop writes into a concrete array under an invariant"))
	}
	if o.T == nil {
		panic(unsupported("havoc of untyped cell " + o.String()))
	}
	if _, ok := o.T.Underlying().(*types.Map); ok {
		panic(unsupported("loop writes into a map under an invariant"))
	}
	return ex.symValue(o.T, nm, false)
}

// sliceOwned: every backing array the slice may have was allocated by the function under analysis.
func (ex *Exec) sliceOwned(s *SliceVal) bool {
	for _, al := range s.Alts {
		if al.O != nil && !al.O.fresh {
			return false
		}
	}
	return true
}
