package main

// Hash-consed SMT terms with light-weight simplification and an SMT-LIB2 printer.

import (
	"fmt"
	"sort"
	"strconv"
	"strings"
)

type Sort string

const (
	SBool  Sort = "Bool"
	SInt   Sort = "Int"
	SReal  Sort = "Real"
	SStr   Sort = "Str"
	SBytes Sort = "Bytes"
	SItem  Sort = "Item"
	STime  Sort = "Time"
	SErr   Sort = "Err"
	SFunc  Sort = "Func"
)

func ArraySort(elem Sort) Sort { return Sort("(Array Int " + string(elem) + ")") }
func (s Sort) IsArray() bool   { return strings.HasPrefix(string(s), "(Array ") }
func (s Sort) Elem() Sort {
	if !s.IsArray() {
		panic("not array sort " + string(s))
	}
	str := string(s)
	return Sort(str[len("(Array Int ") : len(str)-1])
}

// Term ops:
//
//	"true","false","int" (Name=digits),"var" (Name), "lit" (distinct literal of sort, Name=payload),
//	"app" (Name=fn), "and","or","not","ite","=","<","<=","+","-","*","select","store",
//	"forall","exists" (Args[0..n-1]=bound vars, Args[n]=body), "bound" (Name)
type Term struct {
	Op   string
	Name string
	Args []*Term
	S    Sort
	id   int
	open bool // contains bound variables
}

var (
	termTab  = map[string]*Term{}
	termSeq  int
	TTrue    = mk("true", "", SBool)
	TFalse   = mk("false", "", SBool)
	freshSeq int
)

func key(op, name string, s Sort, args []*Term) string {
	var b strings.Builder
	b.WriteString(op)
	b.WriteByte('|')
	b.WriteString(name)
	b.WriteByte('|')
	b.WriteString(string(s))
	for _, a := range args {
		b.WriteByte(',')
		b.WriteString(strconv.Itoa(a.id))
	}
	return b.String()
}

func mk(op, name string, s Sort, args ...*Term) *Term {
	k := key(op, name, s, args)
	if t, ok := termTab[k]; ok {
		return t
	}
	termSeq++
	t := &Term{Op: op, Name: name, Args: append([]*Term(nil), args...), S: s, id: termSeq}
	if op == "bound" {
		t.open = true
	}
	for _, a := range args {
		if a.open {
			t.open = true
		}
	}
	if op == "forall" || op == "exists" {
		// closed iff the body only mentions its own bound vars
		t.open = bodyHasFreeBound(t)
	}
	termTab[k] = t
	return t
}

func bodyHasFreeBound(q *Term) bool {
	n := len(q.Args) - 1
	bound := map[*Term]bool{}
	for _, b := range q.Args[:n] {
		bound[b] = true
	}
	var walk func(t *Term, bd map[*Term]bool) bool
	seen := map[*Term]bool{}
	walk = func(t *Term, bd map[*Term]bool) bool {
		if !t.open {
			return false
		}
		if t.Op == "bound" {
			return !bd[t]
		}
		if seen[t] {
			return false
		}
		if t.Op == "forall" || t.Op == "exists" {
			m := len(t.Args) - 1
			nb := map[*Term]bool{}
			for k, v := range bd {
				nb[k] = v
			}
			for _, b := range t.Args[:m] {
				nb[b] = true
			}
			return walk(t.Args[m], nb)
		}
		for _, a := range t.Args {
			if walk(a, bd) {
				return true
			}
		}
		seen[t] = true
		return false
	}
	return walk(q.Args[n], bound)
}

func Var(name string, s Sort) *Term { return mk("var", name, s) }
func Fresh(prefix string, s Sort) *Term {
	freshSeq++
	return mk("var", fmt.Sprintf("%s!%d", prefix, freshSeq), s)
}
func Bound(name string, s Sort) *Term { return mk("bound", name, s) }
func FreshBound(prefix string, s Sort) *Term {
	freshSeq++
	return mk("bound", fmt.Sprintf("%s!%d", prefix, freshSeq), s)
}
func Lit(s Sort, payload string) *Term { return mk("lit", payload, s) }
func IntLit(n int64) *Term             { return mk("int", strconv.FormatInt(n, 10), SInt) }
func BoolLit(b bool) *Term {
	if b {
		return TTrue
	}
	return TFalse
}
func StrLit(s string) *Term   { return Lit(SStr, s) }
func BytesLit(s string) *Term { return Lit(SBytes, s) }

func (t *Term) IsLit() bool {
	return t.Op == "lit" || t.Op == "int" || t.Op == "true" || t.Op == "false" || t.Op == "real"
}
func (t *Term) IsTrue() bool  { return t == TTrue }
func (t *Term) IsFalse() bool { return t == TFalse }
func (t *Term) IntVal() (int64, bool) {
	if t.Op == "int" {
		n, _ := strconv.ParseInt(t.Name, 10, 64)
		return n, true
	}
	return 0, false
}

// StrVal: the value of a string literal.
func (t *Term) StrVal() (string, bool) {
	if t.Op == "lit" && t.S == SStr {
		return t.Name, true
	}
	return "", false
}

func App(fn string, s Sort, args ...*Term) *Term { return mk("app", fn, s, args...) }

func Not(a *Term) *Term {
	switch {
	case a == TTrue:
		return TFalse
	case a == TFalse:
		return TTrue
	case a.Op == "not":
		return a.Args[0]
	}
	return mk("not", "", SBool, a)
}

func And(as ...*Term) *Term {
	var out []*Term
	seen := map[*Term]bool{}
	var add func(t *Term) bool
	add = func(t *Term) bool {
		if t == TTrue {
			return true
		}
		if t == TFalse {
			return false
		}
		if t.Op == "and" && len(t.Args) <= 6 {
			for _, x := range t.Args {
				if !add(x) {
					return false
				}
			}
			return true
		}
		if seen[t] {
			return true
		}
		if seen[Not(t)] {
			return false
		}
		seen[t] = true
		out = append(out, t)
		return true
	}
	for _, a := range as {
		if !add(a) {
			return TFalse
		}
	}
	switch len(out) {
	case 0:
		return TTrue
	case 1:
		return out[0]
	}
	return mk("and", "", SBool, out...)
}

func Or(as ...*Term) *Term {
	var out []*Term
	seen := map[*Term]bool{}
	var add func(t *Term) bool
	add = func(t *Term) bool {
		if t == TFalse {
			return true
		}
		if t == TTrue {
			return false
		}
		if t.Op == "or" && len(t.Args) <= 6 {
			for _, x := range t.Args {
				if !add(x) {
					return false
				}
			}
			return true
		}
		if seen[t] {
			return true
		}
		if seen[Not(t)] {
			return false
		}
		seen[t] = true
		out = append(out, t)
		return true
	}
	for _, a := range as {
		if !add(a) {
			return TTrue
		}
	}
	// absorption: a or (not a and b) == a or b
	if len(out) > 1 {
		changed := false
		for i, t := range out {
			if t.Op != "and" {
				continue
			}
			var keep []*Term
			for _, cj := range t.Args {
				if cj.Op == "not" && seen[cj.Args[0]] {
					continue
				}
				keep = append(keep, cj)
			}
			if len(keep) != len(t.Args) {
				out[i] = And(keep...)
				changed = true
			}
		}
		if changed {
			return Or(out...)
		}
	}
	switch len(out) {
	case 0:
		return TFalse
	case 1:
		return out[0]
	}
	return mk("or", "", SBool, out...)
}

func Implies(a, b *Term) *Term { return Or(Not(a), b) }
func Iff(a, b *Term) *Term     { return Eq(a, b) }

func Ite(c, a, b *Term) *Term {
	if c == TTrue {
		return a
	}
	if c == TFalse {
		return b
	}
	if a == b {
		return a
	}
	if a.S != b.S {
		panic(fmt.Sprintf("ite sort mismatch %s vs %s (%s / %s)", a.S, b.S, a, b))
	}
	if a.S == SBool {
		if a == TTrue && b == TFalse {
			return c
		}
		if a == TFalse && b == TTrue {
			return Not(c)
		}
		if a == TTrue {
			return Or(c, b)
		}
		if a == TFalse {
			return And(Not(c), b)
		}
		if b == TTrue {
			return Or(Not(c), a)
		}
		if b == TFalse {
			return And(c, a)
		}
	}
	// ite(c, x, ite(c, y, z)) = ite(c,x,z)
	if b.Op == "ite" && b.Args[0] == c {
		return Ite(c, a, b.Args[2])
	}
	if a.Op == "ite" && a.Args[0] == c {
		return Ite(c, a.Args[1], b)
	}
	return mk("ite", "", a.S, c, a, b)
}

func Eq(a, b *Term) *Term {
	if a == b {
		return TTrue
	}
	if a.S != b.S {
		panic(fmt.Sprintf("eq sort mismatch %s vs %s (%s / %s)", a.S, b.S, a, b))
	}
	if a.IsLit() && b.IsLit() {
		return TFalse // distinct hash-consed literals of same sort
	}
	if a.S == SBool {
		if a == TTrue {
			return b
		}
		if b == TTrue {
			return a
		}
		if a == TFalse {
			return Not(b)
		}
		if b == TFalse {
			return Not(a)
		}
	}
	// eq over ite with literal branches: push down when it decides
	if a.Op == "ite" && b.IsLit() {
		return Ite(a.Args[0], Eq(a.Args[1], b), Eq(a.Args[2], b))
	}
	if b.Op == "ite" && a.IsLit() {
		return Ite(b.Args[0], Eq(a, b.Args[1]), Eq(a, b.Args[2]))
	}
	if a.id > b.id {
		a, b = b, a
	}
	return mk("=", "", SBool, a, b)
}

func Neq(a, b *Term) *Term { return Not(Eq(a, b)) }

func Lt(a, b *Term) *Term {
	if x, ok := a.IntVal(); ok {
		if y, ok := b.IntVal(); ok {
			return BoolLit(x < y)
		}
	}
	if a == b {
		return TFalse
	}
	return mk("<", "", SBool, a, b)
}
func Le(a, b *Term) *Term {
	if x, ok := a.IntVal(); ok {
		if y, ok := b.IntVal(); ok {
			return BoolLit(x <= y)
		}
	}
	if a == b {
		return TTrue
	}
	return mk("<=", "", SBool, a, b)
}
func Gt(a, b *Term) *Term { return Lt(b, a) }
func Ge(a, b *Term) *Term { return Le(b, a) }

func Add(a, b *Term) *Term {
	x, okx := a.IntVal()
	y, oky := b.IntVal()
	if okx && oky {
		return IntLit(x + y)
	}
	if okx && x == 0 {
		return b
	}
	if oky && y == 0 {
		return a
	}
	// (t + c1) + c2
	if oky && a.Op == "+" {
		if z, ok := a.Args[1].IntVal(); ok {
			return Add(a.Args[0], IntLit(z+y))
		}
	}
	if oky && y < 0 {
		return Sub(a, IntLit(-y))
	}
	return mk("+", "", a.S, a, b)
}
func Sub(a, b *Term) *Term {
	x, okx := a.IntVal()
	y, oky := b.IntVal()
	if okx && oky {
		return IntLit(x - y)
	}
	if oky && y == 0 {
		return a
	}
	if a == b {
		return IntLit(0)
	}
	if oky && a.Op == "+" {
		if z, ok := a.Args[1].IntVal(); ok {
			return Add(a.Args[0], IntLit(z-y))
		}
	}
	if oky && a.Op == "-" {
		if z, ok := a.Args[1].IntVal(); ok {
			return Sub(a.Args[0], IntLit(z+y))
		}
	}
	return mk("-", "", a.S, a, b)
}
func Mul(a, b *Term) *Term {
	x, okx := a.IntVal()
	y, oky := b.IntVal()
	if okx && oky {
		return IntLit(x * y)
	}
	return mk("*", "", a.S, a, b)
}

func Select(arr, idx *Term) *Term {
	if !arr.S.IsArray() {
		panic("select on non-array " + arr.String())
	}
	// select over store with decidable indices
	for arr.Op == "store" {
		e := Eq(arr.Args[1], idx)
		if e == TTrue {
			return arr.Args[2]
		}
		if e == TFalse {
			arr = arr.Args[0]
			continue
		}
		break
	}
	if arr.Op == "ite" {
		return Ite(arr.Args[0], Select(arr.Args[1], idx), Select(arr.Args[2], idx))
	}
	return mk("select", "", arr.S.Elem(), arr, idx)
}
func Store(arr, idx, v *Term) *Term {
	if v.S != arr.S.Elem() {
		panic(fmt.Sprintf("store sort mismatch %s into %s", v.S, arr.S))
	}
	return mk("store", "", arr.S, arr, idx, v)
}

func Forall(vars []*Term, body *Term) *Term {
	if body == TTrue {
		return TTrue
	}
	if body == TFalse && len(vars) > 0 {
		return TFalse
	}
	args := append(append([]*Term(nil), vars...), body)
	return mk("forall", "", SBool, args...)
}
func Exists(vars []*Term, body *Term) *Term {
	if body == TFalse {
		return TFalse
	}
	args := append(append([]*Term(nil), vars...), body)
	return mk("exists", "", SBool, args...)
}

// Subst replaces terms (typically vars/bounds) by others.
func Subst(t *Term, m map[*Term]*Term) *Term {
	cache := map[*Term]*Term{}
	var rec func(t *Term) *Term
	rec = func(t *Term) *Term {
		if r, ok := m[t]; ok {
			return r
		}
		if len(t.Args) == 0 {
			return t
		}
		if r, ok := cache[t]; ok {
			return r
		}
		args := make([]*Term, len(t.Args))
		changed := false
		for i, a := range t.Args {
			args[i] = rec(a)
			if args[i] != a {
				changed = true
			}
		}
		r := t
		if changed {
			r = rebuild(t, args)
		}
		cache[t] = r
		return r
	}
	return rec(t)
}

func rebuild(t *Term, args []*Term) *Term {
	switch t.Op {
	case "and":
		return And(args...)
	case "or":
		return Or(args...)
	case "not":
		return Not(args[0])
	case "ite":
		return Ite(args[0], args[1], args[2])
	case "=":
		return Eq(args[0], args[1])
	case "<":
		return Lt(args[0], args[1])
	case "<=":
		return Le(args[0], args[1])
	case "+":
		return Add(args[0], args[1])
	case "-":
		return Sub(args[0], args[1])
	case "*":
		return Mul(args[0], args[1])
	case "select":
		return Select(args[0], args[1])
	case "store":
		return Store(args[0], args[1], args[2])
	case "forall":
		return Forall(args[:len(args)-1], args[len(args)-1])
	case "exists":
		return Exists(args[:len(args)-1], args[len(args)-1])
	}
	return mk(t.Op, t.Name, t.S, args...)
}

// ---------- printing ----------

func smtSym(s string) string {
	ok := true
	for _, c := range s {
		if !(c >= 'a' && c <= 'z' || c >= 'A' && c <= 'Z' || c >= '0' && c <= '9' || strings.ContainsRune("_.!$-", c)) {
			ok = false
			break
		}
	}
	if ok && s != "" && !(s[0] >= '0' && s[0] <= '9') {
		return s
	}
	s = strings.ReplaceAll(s, "|", "!")
	s = strings.ReplaceAll(s, "\\", "!")
	return "|" + s + "|"
}

func (t *Term) String() string {
	p := &printer{names: map[*Term]string{}, budget: 3000, limited: true}
	return p.inline(t)
}

type printer struct {
	names   map[*Term]string // named (define-fun'd) closed terms
	lits    map[*Term]string
	budget  int
	limited bool
}

func (p *printer) litName(t *Term) string {
	if p.lits != nil {
		if n, ok := p.lits[t]; ok {
			return n
		}
	}
	return smtSym(fmt.Sprintf("%s#%q", t.S, t.Name))
}

func (p *printer) inline(t *Term) string {
	if n, ok := p.names[t]; ok {
		return n
	}
	if p.limited {
		if p.budget <= 0 {
			return "…"
		}
		p.budget -= 8
	}
	switch t.Op {
	case "true", "false":
		return t.Op
	case "real":
		return t.Name
	case "int":
		if strings.HasPrefix(t.Name, "-") {
			return "(- " + t.Name[1:] + ")"
		}
		return t.Name
	case "var", "bound":
		return smtSym(t.Name)
	case "lit":
		return p.litName(t)
	case "app":
		if len(t.Args) == 0 {
			return smtSym(t.Name)
		}
		var b strings.Builder
		b.WriteString("(" + smtSym(t.Name))
		for _, a := range t.Args {
			b.WriteByte(' ')
			b.WriteString(p.inline(a))
		}
		b.WriteByte(')')
		return b.String()
	case "forall", "exists":
		n := len(t.Args) - 1
		var b strings.Builder
		b.WriteString("(" + t.Op + " (")
		for _, v := range t.Args[:n] {
			fmt.Fprintf(&b, "(%s %s)", smtSym(v.Name), v.S)
		}
		b.WriteString(") ")
		// shared open sub-terms of the body are bound by nested lets (closed ones are define-fun'd globally)
		body := t.Args[n]
		refs := map[*Term]int{}
		var order []*Term
		var walk func(x *Term)
		walk = func(x *Term) {
			if !x.open || len(x.Args) == 0 {
				return
			}
			if _, named := p.names[x]; named {
				return
			}
			refs[x]++
			if refs[x] > 1 {
				return
			}
			if x.Op != "forall" && x.Op != "exists" {
				for _, a := range x.Args {
					walk(a)
				}
			}
			order = append(order, x)
		}
		walk(body)
		var added []*Term
		closers := 0
		if !p.limited {
			for _, x := range order {
				if refs[x] < 2 || x == body {
					continue
				}
				txt := p.inline(x)
				nm := fmt.Sprintf("l!%d", x.id)
				fmt.Fprintf(&b, "(let ((%s %s)) ", nm, txt)
				p.names[x] = nm
				added = append(added, x)
				closers++
			}
		}
		b.WriteString(p.inline(body))
		b.WriteString(strings.Repeat(")", closers))
		for _, x := range added {
			delete(p.names, x)
		}
		b.WriteByte(')')
		return b.String()
	}
	var b strings.Builder
	b.WriteString("(" + t.Op)
	for _, a := range t.Args {
		b.WriteByte(' ')
		b.WriteString(p.inline(a))
	}
	b.WriteByte(')')
	return b.String()
}

// Script builds a self-contained SMT-LIB2 query from assertions.
type Script struct {
	Asserts []*Term
	Comment []string
	Goals   []GoalPart // optional: each goal is checked in its own push/pop scope
}

type GoalPart struct {
	Asserts []*Term
	Tag     string
}

type sig struct {
	args []Sort
	res  Sort
}

// Render emits declarations, shared sub-term definitions and the assertions.
func (sc *Script) Render(extraAxioms func(all []*Term) []*Term) string {
	// collect
	var order []*Term
	seen := map[*Term]bool{}
	refs := map[*Term]int{}
	var walk func(t *Term)
	walk = func(t *Term) {
		refs[t]++
		if seen[t] {
			return
		}
		seen[t] = true
		for _, a := range t.Args {
			walk(a)
		}
		order = append(order, t)
	}
	asserts := append([]*Term(nil), sc.Asserts...)
	for _, a := range asserts {
		walk(a)
	}
	for _, g := range sc.Goals {
		for _, a := range g.Asserts {
			walk(a)
		}
	}
	if extraAxioms != nil {
		// axioms may introduce new terms; iterate to a fixpoint (bounded)
		for round := 0; round < 3; round++ {
			ax := extraAxioms(order)
			n := 0
			for _, a := range ax {
				if !seen[a] {
					n++
				}
				walk(a)
				asserts = append(asserts, a)
			}
			if n == 0 {
				break
			}
		}
	}
	sorts := map[Sort]bool{}
	addSort := func(s Sort) {
		for s.IsArray() {
			s = s.Elem()
		}
		switch s {
		case SBool, SInt, SReal:
		default:
			sorts[s] = true
		}
	}
	vars := map[string]Sort{}
	funs := map[string]sig{}
	lits := map[Sort][]*Term{}
	for _, t := range order {
		addSort(t.S)
		switch t.Op {
		case "var":
			vars[t.Name] = t.S
		case "lit":
			lits[t.S] = append(lits[t.S], t)
		case "app":
			as := make([]Sort, len(t.Args))
			for i, a := range t.Args {
				as[i] = a.S
			}
			if old, ok := funs[t.Name]; ok {
				if old.res != t.S || len(old.args) != len(as) {
					panic("inconsistent signature for " + t.Name)
				}
				for i := range as {
					if old.args[i] != as[i] {
						panic(fmt.Sprintf("inconsistent signature for %s arg %d: %s vs %s", t.Name, i, old.args[i], as[i]))
					}
				}
			}
			funs[t.Name] = sig{as, t.S}
		}
	}
	var b strings.Builder
	for _, c := range sc.Comment {
		b.WriteString("; " + strings.ReplaceAll(c, "\n", "\n; ") + "\n")
	}
	var ss []string
	for s := range sorts {
		ss = append(ss, string(s))
	}
	sort.Strings(ss)
	for _, s := range ss {
		fmt.Fprintf(&b, "(declare-sort %s 0)\n", s)
	}
	p := &printer{names: map[*Term]string{}, lits: map[*Term]string{}}
	var lsorts []string
	for s := range lits {
		lsorts = append(lsorts, string(s))
	}
	sort.Strings(lsorts)
	for _, s := range lsorts {
		l := lits[Sort(s)]
		sort.Slice(l, func(i, j int) bool { return l[i].Name < l[j].Name })
		var names []string
		for i, t := range l {
			n := smtSym(fmt.Sprintf("%s.lit%d", s, i))
			p.lits[t] = n
			names = append(names, n)
			fmt.Fprintf(&b, "(declare-fun %s () %s) ; %q\n", n, s, t.Name)
		}
		if len(names) > 1 {
			fmt.Fprintf(&b, "(assert (distinct %s))\n", strings.Join(names, " "))
		}
	}
	var vs []string
	for v := range vars {
		vs = append(vs, v)
	}
	sort.Strings(vs)
	for _, v := range vs {
		fmt.Fprintf(&b, "(declare-fun %s () %s)\n", smtSym(v), vars[v])
	}
	var fs []string
	for f := range funs {
		fs = append(fs, f)
	}
	sort.Strings(fs)
	for _, f := range fs {
		sg := funs[f]
		var as []string
		for _, a := range sg.args {
			as = append(as, string(a))
		}
		fmt.Fprintf(&b, "(declare-fun %s (%s) %s)\n", smtSym(f), strings.Join(as, " "), sg.res)
	}
	// name shared closed compound terms
	for _, t := range order {
		if t.open || len(t.Args) == 0 || refs[t] < 2 {
			continue
		}
		if t.Op == "app" && len(t.Args) == 0 {
			continue
		}
		body := p.inline(t)
		n := fmt.Sprintf("n!%d", t.id)
		fmt.Fprintf(&b, "(define-fun %s () %s %s)\n", n, t.S, body)
		p.names[t] = n
	}
	for _, a := range asserts {
		fmt.Fprintf(&b, "(assert %s)\n", p.inline(a))
	}
	for _, g := range sc.Goals {
		fmt.Fprintf(&b, "(push 1)\n(echo \"goal %s\")\n", g.Tag)
		for _, a := range g.Asserts {
			fmt.Fprintf(&b, "(assert %s)\n", p.inline(a))
		}
		b.WriteString("(check-sat)\n(pop 1)\n")
	}
	return b.String()
}
