package main

import (
	"fmt"
	"go/types"
	"regexp"
	"sort"
	"strings"

	"golang.org/x/tools/go/ssa"
)

func init() { drivers["C20"] = checkC20 }

type nilKind struct {
	name string
	t    types.Type // nil => untyped nil
}

func (w *World) nilKinds() []nilKind {
	ks := []nilKind{{"untyped-nil", nil}}
	for _, n := range allStructNames {
		ks = append(ks, nilKind{"(*" + n + ")(nil)", w.Type("*" + n)})
	}
	return ks
}

func nilItemOf(k nilKind) *IfaceVal {
	if k.t == nil {
		return &IfaceVal{Alts: []IfaceAlt{{C: TTrue}}}
	}
	return &IfaceVal{Alts: []IfaceAlt{{C: TTrue, T: k.t, V: &PtrVal{Alts: []PtrAlt{{C: TTrue}}}}}}
}

func nilExpr(k nilKind) string {
	if k.t == nil {
		return "nil"
	}
	return "(" + typeName(k.t) + ")(nil)"
}

// nilLikeValue: the value is nil, a nil pointer, or an interface holding one of those.
func (ex *Exec) nilLikeValue(v Value) *Term {
	switch x := v.(type) {
	case *PtrVal:
		return Not(nonNilPtr(x))
	case *IfaceVal:
		var cs []*Term
		for _, al := range ex.normIface(x).Alts {
			switch {
			case al.Opaque != nil:
				cs = append(cs, Implies(al.C, Or(Eq(tagOfItem(al.Opaque), TagNil), App("ptrnil", SBool, al.Opaque))))
			case al.T == nil:
			default:
				if p, ok := al.V.(*PtrVal); ok {
					cs = append(cs, Implies(al.C, Not(nonNilPtr(p))))
				} else if s, ok := al.V.(*SliceVal); ok {
					cs = append(cs, Implies(al.C, Eq(sliceLen(s), IntLit(0))))
				} else if t, ok := al.V.(*Term); ok && t.S == SStr {
					cs = append(cs, Implies(al.C, Or(Eq(t, StrLit("")), Eq(Fold(t), StrLit("-")))))
				} else {
					cs = append(cs, Not(al.C))
				}
			}
		}
		return And(cs...)
	case *SliceVal:
		return Eq(sliceLen(x), IntLit(0))
	case *Term:
		if x.S == SBytes {
			return Eq(BLen(x), IntLit(0))
		}
	}
	return TFalse
}

var c20Select = regexp.MustCompile(`^(To[A-Z]\w*|On[A-Z]\w*|Is[A-Z]\w*|NotEmpty|ItemsEqual|Flatten\w*|CleanRecipients|DerefItem|ItemOrderTimestamp|GobEncode|MarshalJSON|JSONWriteItemProp|JSONWriteIRIProp|ErrorInvalidType)$`)

// defaultArg builds an unconstrained argument of type t; callbacks are recorded.
func (ex *Exec) defaultArg(w *World, t types.Type, name string, cbArgs *[]CallRec) Value {
	switch classify(t) {
	case KFunc:
		sig := t.Underlying().(*types.Signature)
		return &FuncVal{Alts: []FuncAlt{{C: TTrue, Native: func(ex *Exec, st *State, a []Value) Value {
			*cbArgs = append(*cbArgs, CallRec{Name: name, C: st.pc, Args: a})
			if sig.Results().Len() == 1 && classify(sig.Results().At(0).Type()) == KErr {
				return Fresh("cberr", SErr)
			}
			return ex.zeroOfResult(sig.Results())
		}}}}
	case KPtr:
		// non-nil pointer to a fresh symbolic value (e.g. *[]byte buffers)
		el := t.Underlying().(*types.Pointer).Elem()
		o := ex.newObj("arg:"+name, OCell, el)
		o.owner = 0
		o.init = func() Value { return ex.symValue(el, varNamer(name+"->"), false) }
		return &PtrVal{Alts: []PtrAlt{{C: TTrue, O: o}}}
	}
	return ex.symValue(t, varNamer(name), false)
}

func checkC20(w *World, c *Check) {
	c.Exhaustive = true
	c.Trusted = append(c.Trusted,
		"Go semantics modelled by the executor: a value-receiver method invoked through a nil pointer panics (ssa wrapnilchk), nil-pointer field access panics, a single-result type assertion on a mismatching type panics, a method call on a nil interface (incl. a nil reflect.Type) panics",
		"reflect.TypeOf/ConvertibleTo/ValueOf/Convert per go/types conversion rules; (*T)(unsafe.Pointer(nil pointer)) is a nil pointer",
		"fmt.Errorf returns a non-nil error; strings.EqualFold is folding equality",
		"go/types + go/ssa (x/tools v0.29.0); SMT solvers' unsat answers")
	c.Assume = append(c.Assume,
		"matrix rows: every exported package-level function with a parameter of an item interface type whose name matches To*/On*/Is*/NotEmpty/ItemsEqual/Flatten*/CleanRecipients/DerefItem/ItemOrderTimestamp/GobEncode/MarshalJSON/JSONWrite{Item,IRI}Propfound from go/types, plus the container methods Contains/Append/Remove/Count of ItemCollection, IRIs and the four collection structs",
		"matrix columns: the untyped nil and a typed-nil pointer of each of the 14 struct types; every other argument is unconstrained (callbacks are arbitrary functions whose invocations are recorded)",
		"positions: top level, sole member of an ItemCollection, and the Object/Actor/Tag property of an otherwise empty Activity/Object (for the walkers: Flatten*, CleanRecipients, encoders)")

	kinds := w.nilKinds()
	var fnNames []string
	for n, m := range w.Pkg.Members {
		fn, ok := m.(*ssa.Function)
		if !ok || !c20Select.MatchString(n) || fn.TypeParams().Len() > 0 {
			continue
		}
		sig := fn.Signature
		for i := 0; i < sig.Params().Len(); i++ {
			pt := sig.Params().At(i).Type()
			if _, ok := pt.Underlying().(*types.Interface); ok && isLocalNamed(pt) {
				fnNames = append(fnNames, n)
				break
			}
		}
	}
	sort.Strings(fnNames)
	itemIface := w.TPkg.Scope().Lookup("LinkOrIRI").Type().Underlying().(*types.Interface)
	for _, n := range fnNames {
		fn := w.Pkg.Func(n)
		sig := fn.Signature
		for pi := 0; pi < sig.Params().Len(); pi++ {
			pt := sig.Params().At(pi).Type()
			pif, ok := pt.Underlying().(*types.Interface)
			if !ok || !isLocalNamed(pt) {
				continue
			}
			for _, k := range kinds {
				if k.t != nil && !types.Implements(k.t, pif) {
					continue
				}
				n, pi, k := n, pi, k
				pname := sig.Params().At(pi).Name()
				grp := fmt.Sprintf("C20/%s/%s=%s", n, pname, k.name)
				guard(c, grp, func() {
					ex := w.NewExec()
					st := newState()
					var cbs []CallRec
					args := make([]Value, sig.Params().Len())
					var others []*Term
					for i := range args {
						if i == pi {
							args[i] = nilItemOf(k)
							continue
						}
						at := sig.Params().At(i).Type()
						if aif, ok := at.Underlying().(*types.Interface); ok && isLocalNamed(at) {
							x := Var(fmt.Sprintf("other%d", i), SItem)
							args[i] = opaqueItem(x)
							// the other item is any in-package item value or nil
							var tags []types.Type
							for _, t := range ex.itemTypes() {
								if types.Implements(t, aif) {
									tags = append(tags, t)
								}
							}
							ex.assume(Or(Eq(tagOfItem(x), TagNil), tagIn(x, tags)))
							others = append(others, x)
							continue
						}
						args[i] = ex.defaultArg(w, at, fmt.Sprintf("arg%d", i), &cbs)
					}
					res := ex.Call(st, fn, args, nil)
					common := ex.assumes
					pos := ex.pos(fn.Pos())
					rp := c20Replay(n, sig, pi, k)
					for i, p := range ex.panics {
						c.Add(&Obligation{Name: fmt.Sprintf("%s/nopanic/%s@%s#%d", grp, p.Kind, p.Fn, i), Group: grp, Common: common,
							Goal: Not(p.C), Pos: p.Pos, Funcs: []string{n}, Replay: rp})
					}
					if len(ex.panics) == 0 {
						c.Add(&Obligation{Name: grp + "/nopanic", Group: grp, Common: common, Goal: TTrue, Pos: pos, Funcs: []string{n}})
					}
					np := ex.NoPanic()
					add := func(what string, goal *Term) {
						c.Add(&Obligation{Name: grp + "/" + what, Group: grp, Common: common, Hyps: []*Term{np}, Goal: goal, Pos: pos, Funcs: []string{n}, Replay: rp})
					}
					// callbacks receive at worst a nil pointer
					for i, cb := range cbs {
						for _, a := range cb.Args {
							switch a.(type) {
							case *PtrVal, *IfaceVal:
								add(fmt.Sprintf("callback-arg-nil#%d", i), Implies(cb.C, ex.nilLikeValue(a)))
							}
						}
					}
					// neutral results
					switch {
					case n == "IsNil":
						add("neutral", res.(*Term))
					case n == "NotEmpty":
						add("neutral", Not(res.(*Term)))
					case strings.HasPrefix(n, "To"):
						tv := res.(*TupleVal)
						add("neutral", Or(Neq(tv.V[1].(*Term), ErrNil), ex.nilLikeValue(tv.V[0])))
					case n == "CleanRecipients" || n == "FlattenToIRI" || n == "Flatten" || n == "FlattenProperties":
						add("neutral", ex.nilLikeValue(res))
					case n == "DerefItem":
						add("neutral", ex.nilLikeValue(res))
					case n == "GobEncode":
						tv := res.(*TupleVal)
						add("neutral", Or(Neq(tv.V[1].(*Term), ErrNil), Eq(BLen(tv.V[0].(*Term)), IntLit(0))))
					case n == "JSONWriteItemProp" || n == "JSONWriteIRIProp":
						add("neutral", Not(res.(*Term)))
					case n == "ItemsEqual":
						// against another nil-like item: equal; against a non-nil item: not equal
						o := others[0]
						onil := ex.Call(newStateFrom(st), w.Func("IsNil"), []Value{opaqueItem(o)}, nil).(*Term)
						add("neutral", Iff(res.(*Term), onil))
					}
					for _, nn := range sortedNotes(ex) {
						c.Notes = appendUnique(c.Notes, nn)
					}
				})
			}
		}
	}
	_ = itemIface
	checkC20Containers(w, c, kinds)
	checkC20Methods(w, c, kinds)
	checkC20Nested(w, c, kinds)
}

// checkC20Methods: every exported method (other than the container methods handled above) of a
// package type that takes an item interface, with a nil-like argument and an unconstrained receiver.
func checkC20Methods(w *World, c *Check, kinds []nilKind) {
	scope := w.TPkg.Scope()
	names := scope.Names()
	sort.Strings(names)
	only := map[string]bool{"CollectionPath": true, "CollectionPaths": true}
	skipRecv := map[string]bool{"ItemCollection": true, "IRIs": true, "Collection": true, "OrderedCollection": true, "CollectionPage": true, "OrderedCollectionPage": true}
	for _, tn := range names {
		obj, ok := scope.Lookup(tn).(*types.TypeName)
		if !ok || obj.IsAlias() {
			continue
		}
		named, ok := obj.Type().(*types.Named)
		if !ok || named.TypeParams().Len() > 0 || !only[tn] {
			continue
		}
		if _, isIf := named.Underlying().(*types.Interface); isIf {
			continue
		}
		for _, rt := range []types.Type{named, types.NewPointer(named)} {
			ms := w.Prog.MethodSets.MethodSet(rt)
			for i := 0; i < ms.Len(); i++ {
				sel := ms.At(i)
				m := sel.Obj().(*types.Func)
				if !m.Exported() {
					continue
				}
				// take each method once: at the receiver kind it is declared with
				recvT := m.Type().(*types.Signature).Recv().Type()
				if !types.Identical(recvT, rt) {
					continue
				}
				if skipRecv[tn] && (m.Name() == "Contains" || m.Name() == "Append" || m.Name() == "Remove") {
					continue
				}
				sig := m.Type().(*types.Signature)
				for pi := 0; pi < sig.Params().Len(); pi++ {
					pt := sig.Params().At(pi).Type()
					pif, ok := pt.Underlying().(*types.Interface)
					if !ok || !isLocalNamed(pt) {
						continue
					}
					for _, k := range kinds {
						if k.t != nil && !types.Implements(k.t, pif) {
							continue
						}
						pi, k, rt, sel := pi, k, rt, sel
						mname := "(" + typeName(rt) + ")." + m.Name()
						grp := fmt.Sprintf("C20/%s/%s=%s", mname, sig.Params().At(pi).Name(), k.name)
						guard(c, grp, func() {
							ex := w.NewExec()
							ex.autoInv = true // no-panic of a loop body: one arbitrary iteration from an arbitrary loop state
							st := newState()
							ex.installIRIEqualsHook()
							fn := w.Prog.MethodValue(sel)
							var cbs []CallRec
							var recv Value
							if _, isPtr := rt.Underlying().(*types.Pointer); isPtr {
								recv = ex.defaultArg(w, rt, "recv", &cbs)
							} else {
								recv = ex.symValue(rt, varNamer("recv"), false)
							}
							args := []Value{recv}
							for i := 0; i < sig.Params().Len(); i++ {
								if i == pi {
									args = append(args, nilItemOf(k))
								} else {
									args = append(args, ex.defaultArg(w, sig.Params().At(i).Type(), fmt.Sprintf("arg%d", i), &cbs))
								}
							}
							ex.Call(st, fn, args, nil)
							bound := 0
							if ex.bounded {
								bound = ex.symLoopBound
							}
							for i, p := range ex.panics {
								c.Add(&Obligation{Name: fmt.Sprintf("%s/nopanic/%s@%s#%d", grp, p.Kind, p.Fn, i), Group: grp, Common: ex.assumes,
									Goal: Not(p.C), Pos: p.Pos, Funcs: []string{mname}, Bounded: bound})
							}
							for _, so := range ex.sideObls {
								c.Add(&Obligation{Name: fmt.Sprintf("%s/loop/%s", grp, so.Name), Group: grp, Common: ex.assumes, Hyps: []*Term{so.Hyp}, Goal: so.Goal, Pos: so.Pos, Funcs: []string{mname}, Bounded: bound})
							}
							if len(ex.panics) == 0 {
								c.Add(&Obligation{Name: grp + "/nopanic", Group: grp, Common: ex.assumes, Goal: TTrue, Pos: ex.pos(fn.Pos()), Bounded: bound, Funcs: []string{mname}})
							}
						})
					}
				}
			}
		}
	}
}

// checkC20Nested: walkers applied to an otherwise empty Object/Activity that holds the nil-like item in
// one item-typed property, or as the sole member of one list-typed property.
func checkC20Nested(w *World, c *Check, kinds []nilKind) {
	type walker struct {
		name string
		call func(ex *Exec, st *State, it *IfaceVal, ptr *PtrVal, structName string)
	}
	fnW := func(n string) walker {
		return walker{n, func(ex *Exec, st *State, it *IfaceVal, ptr *PtrVal, sn string) {
			ex.Call(st, w.Func(n), []Value{it}, nil)
		}}
	}
	methW := func(m string) walker {
		return walker{"." + m, func(ex *Exec, st *State, it *IfaceVal, ptr *PtrVal, sn string) {
			ex.Call(st, w.Method("*"+sn, m), []Value{ptr}, nil)
		}}
	}
	walkers := []walker{fnW("Flatten"), fnW("FlattenProperties"), fnW("FlattenToIRI"), fnW("CleanRecipients"), fnW("DerefItem"), fnW("NotEmpty"),
		fnW("GobEncode"), methW("Clean"), methW("Recipients"),
		{"CollectionPath.IRI", func(ex *Exec, st *State, it *IfaceVal, ptr *PtrVal, sn string) {
			ex.Call(st, w.Method("CollectionPath", "IRI"), []Value{Var("path", SStr), it}, nil)
		}},
		{"ItemsEqual(x,x)", func(ex *Exec, st *State, it *IfaceVal, ptr *PtrVal, sn string) {
			ex.Call(st, w.Func("ItemsEqual"), []Value{it, it}, nil)
		}},
	}
	if c.Tier == "thorough" {
		walkers = append(walkers, methW("MarshalJSON"))
	}
	for _, sn := range []string{"Object", "Activity", "Actor"} {
		T := w.Type(sn)
		stT := T.Underlying().(*types.Struct)
		for fi := 0; fi < stT.NumFields(); fi++ {
			f := stT.Field(fi)
			isItem := classify(f.Type()) == KIface
			isList := typeName(f.Type()) == "ItemCollection"
			if !isItem && !isList {
				continue
			}
			if sn != "Object" && fieldIndex(w.Type("Object"), f.Name()) >= 0 && sn == "Actor" {
				continue // Actor: only its own properties (the object core is covered by Object)
			}
			for _, k := range kinds {
				if k.t == nil && isItem {
					continue // an untyped nil property is simply unset
				}
				for _, wk := range walkers {
					sn, fi, f, k, wk := sn, fi, f, k, wk
					posn := "prop"
					if isList {
						posn = "member"
					}
					grp := fmt.Sprintf("C20/nested/%s/%s.%s[%s]=%s", wk.name, sn, f.Name(), posn, k.name)
					guard(c, grp, func() {
						ex := w.NewExec()
						st := newState()
						ex.installIRIEqualsHook()
						zero := ex.zeroValue(T).(*StructVal)
						fl := append([]Value(nil), zero.F...)
						fl[fieldIndex(T, "ID")] = StrLit("https://example.com/verif/1")
						tname := map[string]string{"Object": "Note", "Activity": "Create", "Actor": "Person"}[sn]
						fl[fieldIndex(T, "Type")] = StrLit(tname)
						if isItem {
							fl[fi] = nilItemOf(k)
						} else {
							o := ex.newObj("list", OConcArr, f.Type().Underlying().(*types.Slice).Elem())
							st.heap[o] = &ArrVal{E: []Value{nilItemOf(k)}}
							fl[fi] = &SliceVal{Elem: f.Type().Underlying().(*types.Slice).Elem(), Alts: []SliceAlt{{C: TTrue, O: o, Off: IntLit(0), Len: IntLit(1)}}}
						}
						obj := ex.newObj("holder", OCell, T)
						st.heap[obj] = &StructVal{T: T, F: fl}
						ptr := &PtrVal{Alts: []PtrAlt{{C: TTrue, O: obj}}}
						it := &IfaceVal{Alts: []IfaceAlt{{C: TTrue, T: types.NewPointer(T), V: ptr}}}
						wk.call(ex, st, it, ptr, sn)
						bound := 0
						if ex.bounded {
							bound = ex.symLoopBound
						}
						rp := c20NestedReplay(wk.name, sn, f.Name(), isList, k, tname)
						for i, p := range ex.panics {
							c.Add(&Obligation{Name: fmt.Sprintf("%s/nopanic/%s@%s#%d", grp, p.Kind, p.Fn, i), Group: grp, Common: ex.assumes,
								Goal: Not(p.C), Pos: p.Pos, Funcs: []string{wk.name}, Bounded: bound, Replay: rp})
						}
						if len(ex.panics) == 0 {
							c.Add(&Obligation{Name: grp + "/nopanic", Group: grp, Common: ex.assumes, Goal: TTrue, Pos: "walker " + wk.name, Bounded: bound, Funcs: []string{wk.name}})
						}
					})
				}
			}
		}
	}
}

func c20NestedReplay(walker, sn, field string, isList bool, k nilKind, tname string) func(map[string]string) string {
	return func(map[string]string) string {
		val := "Item(" + nilExpr(k) + ")"
		if isList {
			val = "ItemCollection{" + nilExpr(k) + "}"
		}
		var call string
		switch {
		case strings.HasPrefix(walker, "."):
			call = "x" + walker + "()"
		case walker == "CollectionPath.IRI":
			call = "for _, p := range []CollectionPath{Inbox, Outbox, Followers, Following, Liked, Likes, Shares, Replies} { _ = p.IRI(x) }"
		case walker == "ItemsEqual(x,x)":
			call = "_ = ItemsEqual(x, x)"
		default:
			call = walker + "(x)"
		}
		if !strings.HasPrefix(call, "for") && !strings.HasPrefix(call, "_ =") {
			call = "func() { defer func() { if r := recover(); r != nil { t.Fatalf(\"panic: %v\", r) } }(); " + call + " }()"
		}
		return fmt.Sprintf("package activitypub\n\nimport \"testing\"\n\nfunc TestVerifReplay(t *testing.T) {\n\tx := &%s{ID: \"https://example.com/verif/1\", Type: %q}\n\tx.%s = %s\n\t%s\n}\n", sn, tname, field, val, call)
	}
}

func newStateFrom(st *State) *State {
	return &State{pc: TTrue, env: map[ssa.Value]Value{}, heap: st.heap}
}

// checkC20Containers: Contains/Append/Remove with a nil-like argument, and walkers/encoders over
// values holding a nil-like member or property.
func checkC20Containers(w *World, c *Check, kinds []nilKind) {
	type target struct {
		recv   string
		method string
	}
	var targets []target
	for _, r := range []string{"ItemCollection", "*ItemCollection", "IRIs", "*IRIs", "*Collection", "*OrderedCollection", "*CollectionPage", "*OrderedCollectionPage"} {
		for _, m := range []string{"Contains", "Append", "Remove"} {
			t := w.Type(r)
			if sel := w.Prog.MethodSets.MethodSet(t).Lookup(w.TPkg, m); sel != nil {
				// skip promoted duplicates: value-receiver methods appear in both sets
				if strings.HasPrefix(r, "*") || w.Prog.MethodSets.MethodSet(t).Lookup(w.TPkg, m) != nil {
					targets = append(targets, target{r, m})
				}
			}
		}
	}
	for _, tg := range targets {
		for _, k := range kinds {
			tg, k := tg, k
			if tg.recv == "*ItemCollection" && tg.method == "Contains" || tg.recv == "*IRIs" && tg.method == "Contains" {
				continue
			}
			if tg.recv == "ItemCollection" && tg.method != "Contains" || tg.recv == "IRIs" && tg.method != "Contains" {
				continue
			}
			grp := fmt.Sprintf("C20/(%s).%s/arg=%s", tg.recv, tg.method, k.name)
			guard(c, grp, func() {
				ex := w.NewExec()
				st := newState()
				// callee contracts: ItemsEqual, IRI.Equals and IsNil are total pure relations here (their own
				// nil-safety is a row of the function matrix above / property C14); the loops of the container
				// operations are cut by the invariants written for C13
				installItemsEqContract(ex)
				fn := w.Method(tg.recv, tg.method)
				if cs, err := LoadContracts(); err == nil {
					for name := range cs.Funcs {
						if !strings.HasSuffix(name, ".Append") {
							ex.UseLoops(cs, name)
						}
					}
					// Append's written invariants carry C13's functional contract and need its preconditions; for
					// no-panic the trivial invariant (arbitrary loop state) is enough
					ex.autoInv = true
				}
				rt := w.Type(tg.recv)
				var recv Value
				var cbs []CallRec
				if _, isPtr := rt.Underlying().(*types.Pointer); isPtr {
					recv = ex.defaultArg(w, rt, "recv", &cbs)
				} else {
					recv = ex.symValue(rt, varNamer("recv"), false)
				}
				var arg Value = nilItemOf(k)
				sig := fn.Signature
				last := sig.Params().At(sig.Params().Len() - 1).Type()
				if sl, ok := last.Underlying().(*types.Slice); ok && sig.Variadic() {
					// variadic: a one-element list holding the nil-like item
					o := ex.newObj("varargs", OConcArr, sl.Elem())
					st.heap[o] = &ArrVal{E: []Value{arg}}
					arg = &SliceVal{Elem: sl.Elem(), Alts: []SliceAlt{{C: TTrue, O: o, Off: IntLit(0), Len: IntLit(1)}}}
				}
				ex.Call(st, fn, []Value{recv, arg}, nil)
				bound := 0
				if ex.bounded {
					bound = ex.symLoopBound
				}
				for i, p := range ex.panics {
					c.Add(&Obligation{Name: fmt.Sprintf("%s/nopanic/%s@%s#%d", grp, p.Kind, p.Fn, i), Group: grp, Common: ex.assumes,
						Goal: Not(p.C), Pos: p.Pos, Funcs: []string{"(" + tg.recv + ")." + tg.method}, Bounded: bound,
						Replay: c20ContainerReplay(tg.recv, tg.method, k)})
				}
				for _, so := range ex.sideObls {
					c.Add(&Obligation{Name: fmt.Sprintf("%s/loop/%s", grp, so.Name), Group: grp, Common: ex.assumes, Hyps: []*Term{so.Hyp}, Goal: so.Goal, Pos: so.Pos, Funcs: []string{"(" + tg.recv + ")." + tg.method}, Bounded: bound})
				}
				for _, so := range ex.sideObls {
					c.Add(&Obligation{Name: fmt.Sprintf("%s/loop/%s", grp, so.Name), Group: grp, Common: ex.assumes, Hyps: []*Term{so.Hyp}, Goal: so.Goal, Pos: so.Pos, Funcs: []string{"(" + tg.recv + ")." + tg.method}, Bounded: bound})
				}
				if len(ex.panics) == 0 {
					c.Add(&Obligation{Name: grp + "/nopanic", Group: grp, Common: ex.assumes, Goal: TTrue, Pos: ex.pos(fn.Pos()), Bounded: bound})
				}
			})
		}
	}
}

// ---------- replays ----------

func goDefault(t types.Type, name string) string {
	switch classify(t) {
	case KFunc:
		sig := t.Underlying().(*types.Signature)
		var ps []string
		for i := 0; i < sig.Params().Len(); i++ {
			ps = append(ps, fmt.Sprintf("a%d %s", i, typeName(sig.Params().At(i).Type())))
		}
		ret := ""
		body := ""
		if sig.Results().Len() == 1 {
			ret = " " + typeName(sig.Results().At(0).Type())
			body = "return " + goZero(sig.Results().At(0).Type())
		}
		chk := ""
		for i := 0; i < sig.Params().Len(); i++ {
			if _, ok := sig.Params().At(i).Type().Underlying().(*types.Pointer); ok {
				chk += fmt.Sprintf("if a%d != nil { t.Errorf(\"callback received a non-nil pointer %%p for a nil item\", a%d) }; ", i, i)
			}
		}
		return fmt.Sprintf("func(%s)%s { %s%s }", strings.Join(ps, ", "), ret, chk, body)
	case KPtr:
		return "new(" + typeName(t.Underlying().(*types.Pointer).Elem()) + ")"
	case KIface:
		return `&Object{ID: "https://example.com/verif/other", Type: NoteType}`
	}
	return goZero(t)
}

func goZero(t types.Type) string {
	switch classify(t) {
	case KBool:
		return "false"
	case KInt, KFloat:
		return "0"
	case KStr:
		return `""`
	case KErr, KIface, KPtr, KSlice, KMap, KFunc, KBytes:
		return "nil"
	}
	return typeName(t) + "{}"
}

func c20Replay(fn string, sig *types.Signature, pi int, k nilKind) func(map[string]string) string {
	return func(map[string]string) string {
		var args []string
		for i := 0; i < sig.Params().Len(); i++ {
			if i == pi {
				args = append(args, nilExpr(k))
			} else {
				args = append(args, goDefault(sig.Params().At(i).Type(), fmt.Sprintf("arg%d", i)))
			}
		}
		var checks string
		switch {
		case fn == "IsNil":
			checks = "\tif !r0 {\n\t\tt.Fatalf(\"IsNil is false for a nil-like item\")\n\t}\n"
		case fn == "NotEmpty":
			checks = "\tif r0 {\n\t\tt.Fatalf(\"NotEmpty is true for a nil-like item\")\n\t}\n"
		case strings.HasPrefix(fn, "To"):
			checks = "\tif r1 == nil && r0 != nil {\n\t\tt.Fatalf(\"conversion of a nil-like item returned a non-nil pointer %p\", r0)\n\t}\n"
		case fn == "CleanRecipients" || strings.HasPrefix(fn, "Flatten") || fn == "DerefItem":
			checks = "\tif !IsNil(r0) {\n\t\tt.Fatalf(\"result for a nil-like item is not nil-like: %#v\", r0)\n\t}\n"
		case fn == "GobEncode" || fn == "MarshalJSON":
			checks = "\tif r1 == nil && len(r0) != 0 {\n\t\tt.Fatalf(\"encoding a nil-like item produced %q\", r0)\n\t}\n"
		case fn == "ItemsEqual":
			checks = "\tif r0 {\n\t\tt.Fatalf(\"a nil-like item equals a non-nil one\")\n\t}\n"
		}
		var lhs []string
		for i := 0; i < sig.Results().Len(); i++ {
			lhs = append(lhs, fmt.Sprintf("r%d", i))
		}
		assign, use := "", ""
		if len(lhs) > 0 {
			assign = strings.Join(lhs, ", ") + " := "
			for _, l := range lhs {
				use += "\t_ = " + l + "\n"
			}
		}
		return fmt.Sprintf("package activitypub\n\nimport \"testing\"\n\nfunc TestVerifReplay(t *testing.T) {\n\t%s%s(%s)\n%s%s}\n",
			assign, fn, strings.Join(args, ", "), use, checks)
	}
}

func c20ContainerReplay(recv, method string, k nilKind) func(map[string]string) string {
	return func(map[string]string) string {
		el := strings.TrimPrefix(recv, "*")
		var mk string
		switch el {
		case "ItemCollection":
			mk = `c := ItemCollection{IRI("https://example.com/a"), &Object{ID: "https://example.com/b"}}`
		case "IRIs":
			mk = `c := IRIs{"https://example.com/a", "https://example.com/b"}`
		case "Collection", "CollectionPage":
			mk = fmt.Sprintf(`c := %s{Items: ItemCollection{IRI("https://example.com/a"), &Object{ID: "https://example.com/b"}}}`, el)
		default:
			mk = fmt.Sprintf(`c := %s{OrderedItems: ItemCollection{IRI("https://example.com/a"), &Object{ID: "https://example.com/b"}}}`, el)
		}
		call := fmt.Sprintf("c.%s(%s)", method, nilExpr(k))
		return fmt.Sprintf("package activitypub\n\nimport \"testing\"\n\nfunc TestVerifReplay(t *testing.T) {\n\t%s\n\t_ = %s\n\t_ = t\n}\n", mk, call)
	}
}
