package main

import (
	"fmt"
	"go/types"
	"strings"

	"golang.org/x/tools/go/ssa"
)

func init() { drivers["C07"] = checkC07 }

var allStructNames = append(append([]string{}, objectStructNames...), "Link")

// installRecorder hooks function `name` so that a call is recorded and `effect` decides the result.
func (ex *Exec) installRecorder(name string, effect func(ex *Exec, st *State, fn *ssa.Function, args []Value) Value) {
	ex.hooks[name] = func(ex *Exec, st *State, fn *ssa.Function, args []Value) (Value, bool) {
		ex.calls = append(ex.calls, CallRec{Name: name, C: st.pc, Args: args})
		return effect(ex, st, fn, args), true
	}
}

// dynIs: condition under which the interface value holds exactly dynamic type t.
func (ex *Exec) dynIs(iv *IfaceVal, t types.Type) *Term {
	var cs []*Term
	for _, al := range ex.normIface(iv).Alts {
		switch {
		case al.Opaque != nil:
			cs = append(cs, And(al.C, Eq(tagOfItem(al.Opaque), TagOf(t))))
		case al.T != nil && types.Identical(al.T, t):
			cs = append(cs, al.C)
		}
	}
	return Or(cs...)
}

// payloadAs returns the payload of iv under the assumption that its dynamic type is t.
func (ex *Exec) payloadAs(iv *IfaceVal, t types.Type) Value {
	_, v := ex.assertTo(ex.normIface(iv), t)
	if v == nil {
		return ex.zeroValue(t)
	}
	return v
}

func (ex *Exec) calledWith(name string, argIdx int, p *PtrVal) *Term {
	var cs []*Term
	for _, r := range ex.calls {
		if r.Name == name {
			if q, ok := r.Args[argIdx].(*PtrVal); ok {
				cs = append(cs, And(r.C, ex.ptrEq(q, p)))
			}
		}
	}
	return Or(cs...)
}
func (ex *Exec) calledOther(prefixes []string, except string) *Term {
	var cs []*Term
	for _, r := range ex.calls {
		if r.Name == except {
			continue
		}
		for _, p := range prefixes {
			if strings.HasPrefix(r.Name, p) {
				cs = append(cs, r.C)
			}
		}
	}
	return Or(cs...)
}

func nonNilPtr(p *PtrVal) *Term {
	var cs []*Term
	for _, al := range p.Alts {
		if al.O != nil {
			cs = append(cs, al.C)
		}
	}
	return Or(cs...)
}

func (ex *Exec) fieldVia(st *State, p *PtrVal, structT types.Type, field string) Value {
	fi := fieldIndex(structT, field)
	var r Value
	for _, al := range p.Alts {
		if al.O == nil {
			continue
		}
		v := ex.navigate(st, ex.heapGet(st, al.O), append(append([]PathElem(nil), al.Path...), PathElem{Field: fi}), al.O)
		if r == nil {
			r = v
		} else {
			r = ex.merge(al.C, v, r)
		}
	}
	if r == nil {
		return ex.zeroValue(structT.Underlying().(*types.Struct).Field(fi).Type())
	}
	return r
}

func checkC07(w *World, c *Check) {
	c.Exhaustive = true
	c.Trusted = append(c.Trusted,
		"vocabulary table (type name -> family, Go struct) written from the W3C Activity Vocabulary in govc/vocab.go",
		"assumed contract of each JSONLoad<T>(val,p) / unmap<T>Properties(mm,p) / <T>.GobEncode used at the dispatch sites: it fills *p (id and type from the `id`/`type` members) and returns nil — these bodies are the subject of C01/C03/C05, here only the dispatch is verified",
		"fastjson accessor contracts (Get nil-safe, Type, GetStringBytes, GetArray); encoding/gob shape exclusion: a gob-encoded property map decodes neither as [][]byte nor as []IRI",
		"strings.EqualFold is equality of a folding normal form; reflect.ConvertibleTo per go/types; C08 views",
		"go/types + go/ssa (x/tools v0.29.0); SMT solvers' unsat answers")
	c.Assume = append(c.Assume,
		"documents carry a non-empty id (so the decoded value is not dropped as empty by the IsNotEmpty hook, which is NotEmpty unless replaced)",
		"configuration 'hooks set' = JSONItemUnmarshal is an arbitrary non-nil function; ItemTyperFunc and IsNotEmpty keep their defaults (an ItemTyperFunc that disagrees with GetItemByType on vocabulary names, or an IsNotEmpty that rejects everything, would change vocabulary outcomes by design)",
		"package-level type lists hold their initialiser values")

	names := append([]string{""}, func() []string {
		var r []string
		for _, e := range vocab {
			r = append(r, e.Name)
		}
		return r
	}()...)
	entry := map[string]vocabEntry{"": {Name: "", Family: "object", GoType: "Object"}}
	for _, e := range vocab {
		entry[e.Name] = e
	}

	// ---- registry: GetItemByType ----
	guard(c, "C07/GetItemByType", func() {
		ex := w.NewExec()
		st := newState()
		typ := Var("typ", SStr)
		fn := w.Func("GetItemByType")
		res := ex.Call(st, fn, []Value{typ}, nil).(*TupleVal)
		iv, err := res.V[0].(*IfaceVal), res.V[1].(*Term)
		common := append([]*Term{ex.NoPanic()}, ex.assumes...)
		for _, n := range names {
			e := entry[n]
			T := w.Type("*" + e.GoType)
			p := ex.payloadAs(iv, T).(*PtrVal)
			gotType := ex.fieldVia(st, p, w.Type(e.GoType), "Type").(*Term)
			c.Add(&Obligation{Name: "C07/GetItemByType/name=" + n, Group: "C07/GetItemByType", Common: common, Hyps: []*Term{Eq(typ, StrLit(n))},
				Goal: And(Eq(err, ErrNil), ex.dynIs(iv, T), nonNilPtr(p), Eq(gotType, StrLit(n))), Pos: ex.pos(fn.Pos()), Funcs: []string{"GetItemByType", "ObjectNew"},
				Replay: c07RegistryReplay(n, e.GoType)})
		}
		// names outside the vocabulary: error, nothing, or the documented plain-Object fallback
		var outside []*Term
		for _, n := range names {
			outside = append(outside, Neq(typ, StrLit(n)))
		}
		c.Add(&Obligation{Name: "C07/GetItemByType/outside", Group: "C07/GetItemByType", Common: common, Hyps: outside,
			Goal: Or(Neq(err, ErrNil), ex.dynIs(iv, w.Type("*Object")), ex.ifaceEq(iv, &IfaceVal{Alts: []IfaceAlt{{C: TTrue}}})), Pos: ex.pos(fn.Pos()), Funcs: []string{"GetItemByType"}})
	})

	// ---- family predicates ----
	guard(c, "C07/family", func() {
		ex := w.NewExec()
		st := newState()
		typ := Var("typ", SStr)
		contains := w.Method("ActivityVocabularyTypes", "Contains")
		lists := map[string]string{"ObjectTypes": "object", "ActorTypes": "actor", "ActivityTypes": "activity",
			"IntransitiveActivityTypes": "intransitive", "LinkTypes": "link", "CollectionTypes": "collection", "GenericTypes": "generic"}
		res := map[string]*Term{}
		for l := range lists {
			g := w.Pkg.Var(l)
			if g == nil {
				panic(unsupported("type list " + l + " not found"))
			}
			lv := ex.load(st, &PtrVal{Alts: []PtrAlt{{C: TTrue, O: ex.globalObj(g)}}}, g.Type().(*types.Pointer).Elem(), 0)
			res[l] = ex.Call(st, contains, []Value{lv, typ}, nil).(*Term)
		}
		common := append([]*Term{ex.NoPanic()}, ex.assumes...)
		for _, e := range vocab {
			fam := e.Family
			if e.Generic {
				fam = "generic"
			}
			for l, lf := range lists {
				want := lf == fam
				goal := res[l]
				if !want {
					goal = Not(goal)
				}
				c.Add(&Obligation{Name: fmt.Sprintf("C07/family/name=%s/list=%s", e.Name, l), Group: "C07/family", Common: common,
					Hyps: []*Term{Eq(typ, StrLit(e.Name))}, Goal: goal, Pos: "type lists", Funcs: []string{"ActivityVocabularyTypes.Contains"},
					Replay: c07FamilyReplay(e.Name, l, want)})
			}
		}
	})

	// ---- Is* answers and To*/On* acceptance of the registry's value ----
	for _, n := range names {
		n := n
		e := entry[n]
		guard(c, "C07/accept/name="+n, func() {
			ex := w.NewExec()
			st := newState()
			res := ex.Call(st, w.Func("GetItemByType"), []Value{StrLit(n)}, nil).(*TupleVal)
			iv := res.V[0].(*IfaceVal)
			grp := "C07/accept/name=" + n
			isM := func(m string) *Term {
				mt := w.TPkg.Scope().Lookup("ObjectOrLink").Type().Underlying().(*types.Interface)
				for i := 0; i < mt.NumMethods(); i++ {
					if mt.Method(i).Name() == m {
						return ex.invoke(st, iv, mt.Method(i), nil, fakeCall(w, m)).(*Term)
					}
				}
				panic(unsupported("method " + m + " not in ObjectOrLink"))
			}
			isLink, isObject, isColl := isM("IsLink"), isM("IsObject"), isM("IsCollection")
			helpers := []string{"To" + e.GoType}
			switch e.Family {
			case "object":
				helpers = append(helpers, "ToObject")
			case "actor":
				helpers = append(helpers, "ToActor", "ToObject")
			case "activity":
				helpers = append(helpers, "ToActivity", "ToIntransitiveActivity", "ToObject")
			case "intransitive":
				helpers = append(helpers, "ToIntransitiveActivity", "ToObject")
			case "collection":
				helpers = append(helpers, "ToObject")
			case "link":
				helpers = append(helpers, "ToLink")
			}
			seen := map[string]bool{}
			var goals []struct {
				name string
				g    *Term
			}
			for _, h := range helpers {
				if seen[h] {
					continue
				}
				seen[h] = true
				r := ex.Call(st, w.Func(h), []Value{iv}, nil).(*TupleVal)
				goals = append(goals, struct {
					name string
					g    *Term
				}{"to=" + h, And(Eq(r.V[1].(*Term), ErrNil), nonNilPtr(r.V[0].(*PtrVal)))})
				// the On helper invokes the callback exactly on that view
				on := "On" + strings.TrimPrefix(h, "To")
				if of := w.Pkg.Func(on); of != nil {
					called := TFalse
					cb := &FuncVal{Alts: []FuncAlt{{C: TTrue, Native: func(ex *Exec, st2 *State, a []Value) Value {
						called = Or(called, And(st2.pc, nonNilPtr(a[0].(*PtrVal))))
						return ErrNil
					}}}}
					er := ex.Call(st, of, []Value{iv, cb}, nil).(*Term)
					goals = append(goals, struct {
						name string
						g    *Term
					}{"on=" + on, And(Eq(er, ErrNil), called)})
				}
			}
			common := append([]*Term{ex.NoPanic()}, ex.assumes...)
			add := func(name string, g *Term) {
				c.Add(&Obligation{Name: grp + "/" + name, Group: grp, Common: common, Goal: g, Pos: "GetItemByType(" + n + ")",
					Funcs: append([]string{"GetItemByType"}, helpers...), Replay: c07AcceptReplay(n, name)})
			}
			add("IsLink", Iff(isLink, BoolLit(e.Family == "link")))
			add("IsObject", Iff(isObject, BoolLit(e.Family != "link")))
			add("IsCollection", Iff(isColl, BoolLit(e.Family == "collection")))
			for _, g := range goals {
				add(g.name, g.g)
			}
		})
	}

	jsonDispatchObligations(w, c, "C07", names, entry)

	gobDispatchObligations(w, c, "C07", names, entry)
}

// gobDispatchObligations: the type dispatch of gobEncodeItem / gobDecodeItem, per vocabulary name.
func gobDispatchObligations(w *World, c *Check, P string, names []string, entry map[string]vocabEntry) {
	// ---- gob: encode dispatch and decode dispatch ----
	guard(c, P+"/gob/encode", func() {
		for _, gt := range allStructNames {
			gt := gt
			var ns []string
			for _, n := range names {
				if entry[n].GoType == gt {
					ns = append(ns, n)
				}
			}
			grp := P + "/gob/encode/go=" + gt
			guard(c, grp, func() {
				ex := w.NewExec()
				st := newState()
				for _, s := range allStructNames {
					s := s
					name := "(" + s + ").GobEncode"
					ex.installRecorder(name, func(ex *Exec, st *State, fn *ssa.Function, args []Value) Value {
						return &TupleVal{V: []Value{Fresh("gob."+s, SBytes), ErrNil}}
					})
				}
				T := w.Type("*" + gt)
				iv, _, sv := ex.symItemOfType(T, "x")
				typ := sv.F[fieldIndex(w.Type(gt), "Type")].(*Term)
				r := ex.Call(st, w.Func("gobEncodeItem"), []Value{iv}, nil).(*TupleVal)
				err := r.V[1].(*Term)
				common := append([]*Term{ex.NoPanic()}, ex.assumes...)
				for _, n := range ns {
					var called []*Term
					for _, rec := range ex.calls {
						if rec.Name == "("+gt+").GobEncode" {
							called = append(called, rec.C)
						}
					}
					c.Add(&Obligation{Name: fmt.Sprintf(P+"/gob/encode/name=%s", n), Group: grp, Common: common, Hyps: []*Term{Eq(typ, StrLit(n))},
						Goal: And(Eq(err, ErrNil), Or(called...), Not(ex.calledOther([]string{"("}, "("+gt+").GobEncode"))), Pos: "gobEncodeItem",
						Funcs: []string{"gobEncodeItem", "GobEncode"}, Replay: c07GobReplay(n, gt)})
				}
			})
		}
	})
	guard(c, P+"/gob/decode", func() {
		ex := w.NewExec()
		st := newState()
		c07InstallLoaderContracts(ex, w, "unmap")
		data := Var("data", SBytes)
		mmObj := ex.newObj("decoded-map", OCell, nil)
		typB, idB := Var("gob.type", SBytes), Var("gob.id", SBytes)
		hasType := Var("gob.hasType", SBool)
		mmObj.init = func() Value {
			return &MapContent{Ents: []MapEnt{{C: hasType, K: StrLit("type"), V: typB}, {C: TTrue, K: StrLit("id"), V: idB}}}
		}
		ex.hooks["tryDecodeItems"] = func(ex *Exec, st *State, fn *ssa.Function, a []Value) (Value, bool) {
			return freshErr(ex, "notitems"), true
		}
		ex.hooks["tryDecodeIRIs"] = func(ex *Exec, st *State, fn *ssa.Function, a []Value) (Value, bool) {
			return freshErr(ex, "notiris"), true
		}
		ex.hooks["gobDecodeObjectAsMap"] = func(ex *Exec, st *State, fn *ssa.Function, a []Value) (Value, bool) {
			m := fn.Signature.Results().At(0).Type().Underlying().(*types.Map)
			return &TupleVal{V: []Value{&MapVal{K: m.Key(), V: m.Elem(), Alts: []MapAlt{{C: TTrue, O: mmObj}}}, ErrNil}}, true
		}
		r := ex.Call(st, w.Func("GobDecode"), []Value{data}, nil).(*TupleVal)
		iv, err := r.V[0].(*IfaceVal), r.V[1].(*Term)
		common := append([]*Term{ex.NoPanic(), Neq(B2S(idB), StrLit(""))}, ex.assumes...)
		for _, n := range names {
			e := entry[n]
			T := w.Type("*" + e.GoType)
			p := ex.payloadAs(iv, T).(*PtrVal)
			loader := "unmap" + e.GoType + "Properties"
			hy := []*Term{hasType, Eq(B2S(typB), StrLit(n))}
			if n == "" {
				hy = []*Term{Not(hasType)}
			}
			c.Add(&Obligation{Name: P + "/gob/decode/name=" + n, Group: P + "/gob/decode", Common: common, Hyps: hy,
				Goal: And(Eq(err, ErrNil), ex.dynIs(iv, T), nonNilPtr(p), ex.calledWith(loader, 1, p), Not(ex.calledOther([]string{"unmap"}, loader))),
				Pos:  "gobDecodeItem", Funcs: []string{"gobDecodeItem", "GobDecode", "GetItemByType"}, Replay: c07GobReplay(n, e.GoType)})
		}
	})
}

func namesNonEmpty(ns []string) []string {
	var r []string
	for _, n := range ns {
		if n != "" {
			r = append(r, n)
		}
	}
	return r
}

func c07DocType(doc *Term) *Term { return B2S(jStr(jGet(doc, StrLit("type")))) }
func c07DocHyp(doc *Term) *Term {
	return And(Neq(doc, jvNil), Eq(jType(doc), IntLit(jTypeObject)), Neq(B2S(jStr(jGet(doc, StrLit("id")))), StrLit("")))
}

// c07InstallLoaderContracts: contract of JSONLoad<T>(val, p) / unmap<T>Properties(mm, p) at dispatch sites.
func c07InstallLoaderContracts(ex *Exec, w *World, kind string) {
	for _, s := range allStructNames {
		s := s
		name := kind + s
		if kind == "unmap" {
			name = "unmap" + s + "Properties"
		}
		ex.installRecorder(name, func(ex *Exec, st *State, fn *ssa.Function, args []Value) Value {
			p := args[1].(*PtrVal)
			T := w.Type(s)
			var id, typ *Term
			var src *Term
			if kind == "JSONLoad" {
				src = args[0].(*Term)
				id, typ = B2S(jStr(jGet(src, StrLit("id")))), B2S(jStr(jGet(src, StrLit("type"))))
			} else {
				mv := args[0].(*MapVal)
				src = Var("gobmap", Sort("O_map"))
				for _, al := range mv.Alts {
					if al.O != nil {
						_, iv := ex.mapGet(ex.mapContent(st, al.O), StrLit("id"), mv.V)
						_, tv := ex.mapGet(ex.mapContent(st, al.O), StrLit("type"), mv.V)
						id, typ = B2S(iv.(*Term)), B2S(tv.(*Term))
					}
				}
			}
			sv := ex.symValue(T, ufNamer("loaded."+s, src), false).(*StructVal)
			f := append([]Value(nil), sv.F...)
			f[fieldIndex(T, "ID")] = id
			f[fieldIndex(T, "Type")] = typ
			ex.store(st, p, &StructVal{T: T, F: f}, 0)
			return ErrNil
		})
	}
}

// fakeCall fabricates a call instruction carrying only a result type (for invoking interface methods from drivers).
func fakeCall(w *World, method string) *ssa.Call {
	// find any call instruction in the package with the wanted method as invoke target
	for fn := range ssautilAllFunctions(w) {
		for _, b := range fn.Blocks {
			for _, ins := range b.Instrs {
				if c, ok := ins.(*ssa.Call); ok && c.Common().IsInvoke() && c.Common().Method.Name() == method {
					return c
				}
			}
		}
	}
	panic(unsupported("no call site of " + method + " to borrow a result type from"))
}

// ---------- replays ----------

func goTypeLit(n string) string { return fmt.Sprintf("ActivityVocabularyType(%q)", n) }

func c07RegistryReplay(n, goType string) func(map[string]string) string {
	return func(map[string]string) string {
		return fmt.Sprintf(`package activitypub

import "testing"

func TestVerifReplay(t *testing.T) {
	it, err := GetItemByType(%s)
	if err != nil {
		t.Fatalf("GetItemByType(%s): %%v", err)
	}
	if _, ok := it.(*%s); !ok {
		t.Fatalf("GetItemByType(%s) = %%T, the vocabulary places it in *%s", it)
	}
	if it.GetType() != %s {
		t.Fatalf("GetItemByType(%s) has type %%q", it.GetType())
	}
}
`, goTypeLit(n), n, goType, n, goType, goTypeLit(n), n)
	}
}

func c07FamilyReplay(n, list string, want bool) func(map[string]string) string {
	return func(map[string]string) string {
		return fmt.Sprintf(`package activitypub

import "testing"

func TestVerifReplay(t *testing.T) {
	if got := %s.Contains(%s); got != %v {
		t.Fatalf("%s.Contains(%s) = %%v, the vocabulary says %v", got)
	}
}
`, list, goTypeLit(n), want, list, n, want)
	}
}

func c07AcceptReplay(n, what string) func(map[string]string) string {
	return func(map[string]string) string {
		var body string
		switch {
		case strings.HasPrefix(what, "to="):
			body = fmt.Sprintf("\tif v, err := %s(it); err != nil || v == nil {\n\t\tt.Fatalf(\"%s refuses the registry's value for %s: %%v\", err)\n\t}\n", what[3:], what[3:], n)
		case strings.HasPrefix(what, "on="):
			body = fmt.Sprintf("\tcalled := false\n\tif err := %s(it, func(v *%s) error { called = v != nil; return nil }); err != nil || !called {\n\t\tt.Fatalf(\"%s does not accept the registry's value for %s: err=%%v called=%%v\", err, called)\n\t}\n", what[3:], strings.TrimPrefix(what[3:], "On"), what[3:], n)
		default:
			return ""
		}
		return fmt.Sprintf("package activitypub\n\nimport \"testing\"\n\nfunc TestVerifReplay(t *testing.T) {\n\tit, _ := GetItemByType(%s)\n%s}\n", goTypeLit(n), body)
	}
}

func c07JSONReplay(n, goType, posn string, hooks bool) func(map[string]string) string {
	return func(map[string]string) string {
		member := fmt.Sprintf(`"type":%q,`, n)
		if n == "" {
			member = ""
		}
		doc := fmt.Sprintf(`{%s"id":"https://example.com/verif/1"}`, member)
		var get string
		switch posn {
		case "top":
			get = fmt.Sprintf("\tit, err := UnmarshalJSON([]byte(`%s`))\n", doc)
		case "item":
			get = fmt.Sprintf("\touter, err := UnmarshalJSON([]byte(`{\"type\":\"Create\",\"id\":\"https://example.com/verif/0\",\"object\":%s}`))\n\tvar it Item\n\tif a, ok := outer.(*Activity); ok {\n\t\tit = a.Object\n\t}\n", doc)
		case "list":
			get = fmt.Sprintf("\touter, err := UnmarshalJSON([]byte(`[%s]`))\n\tvar it Item\n\tif c, ok := outer.(ItemCollection); ok && len(c) == 1 {\n\t\tit = c[0]\n\t}\n", doc)
		}
		hk := ""
		if hooks {
			hk = "\tJSONItemUnmarshal = func(typ ActivityVocabularyType, v *fastjson.Value, i Item) error { t.Errorf(\"extension hook invoked for vocabulary type %%q\", typ); return nil }\n\tdefer func() { JSONItemUnmarshal = nil }()\n"
		}
		imp := "import \"testing\"\n"
		if hooks {
			imp = "import (\n\t\"testing\"\n\n\t\"github.com/valyala/fastjson\"\n)\n"
		}
		return fmt.Sprintf(`package activitypub

%s
func TestVerifReplay(t *testing.T) {
%s%s	if err != nil {
		t.Fatalf("decode: %%v", err)
	}
	v, ok := it.(*%s)
	if !ok {
		t.Fatalf("a document of type %s (%s position) decodes to %%T, the vocabulary places it in *%s", it)
	}
	if v.ID != "https://example.com/verif/1" {
		t.Fatalf("id lost: %%q", v.ID)
	}
}
`, imp, hk, get, goType, n, posn, goType)
	}
}

var c07Specific = map[string][2]string{
	"Question": {"Closed", "true"}, "Place": {"Units", `"m"`}, "Tombstone": {"FormerType", `ActivityVocabularyType("Note")`},
	"Relationship": {"Subject", `IRI("https://example.com/verif/s")`}, "Profile": {"Describes", `IRI("https://example.com/verif/d")`},
	"Actor": {"Inbox", `IRI("https://example.com/verif/inbox")`}, "Activity": {"Object", `IRI("https://example.com/verif/o")`},
	"IntransitiveActivity": {"Target", `IRI("https://example.com/verif/t")`}, "Collection": {"TotalItems", "3"},
	"OrderedCollection": {"TotalItems", "3"}, "CollectionPage": {"TotalItems", "3"}, "OrderedCollectionPage": {"TotalItems", "3"},
	"Link": {"Href", `IRI("https://example.com/verif/h")`}, "Object": {"Summary", `NaturalLanguageValues{{Ref: NilLangRef, Value: Content("s")}}`},
}

func c07GobReplay(n, goType string) func(map[string]string) string {
	return func(map[string]string) string {
		sp := c07Specific[goType]
		return fmt.Sprintf(`package activitypub

import (
	"reflect"
	"testing"
)

func TestVerifReplay(t *testing.T) {
	in := &%s{ID: "https://example.com/verif/1", Type: %s}
	in.%s = %s
	data, err := GobEncode(in)
	if err != nil {
		t.Fatalf("GobEncode: %%v", err)
	}
	out, err := GobDecode(data)
	if err != nil {
		t.Fatalf("GobDecode: %%v", err)
	}
	v, ok := out.(*%s)
	if !ok {
		t.Fatalf("a gob-encoded %s decodes to %%T, the vocabulary places it in *%s", out)
	}
	if v.ID != in.ID || v.Type != in.Type {
		t.Fatalf("id/type lost: %%q %%q", v.ID, v.Type)
	}
	if !reflect.DeepEqual(v.%s, in.%s) {
		t.Fatalf("the %s-specific property %s was not decoded by the %s decoder: %%v", v.%s)
	}
}
`, goType, goTypeLit(n), sp[0], sp[1], goType, n, goType, sp[0], sp[0], goType, sp[0], goType, sp[0])
	}
}

// jsonDispatchObligations: the type dispatch of the JSON item decoder, per vocabulary name.
func jsonDispatchObligations(w *World, c *Check, P string, names []string, entry map[string]vocabEntry) {
	// ---- JSON decoding: top-level, nested item, nested list; hooks unset / set ----
	for _, cfg := range []string{"hooks-unset", "hooks-set"} {
		for _, posn := range []string{"top", "item", "list"} {
			cfg, posn := cfg, posn
			grp := fmt.Sprintf("%s/JSON/%s/%s", P, posn, cfg)
			guard(c, grp, func() {
				ex := w.NewExec()
				st := newState()
				c07InstallLoaderContracts(ex, w, "JSONLoad")
				var hookCalled *Term = TFalse
				if cfg == "hooks-set" {
					g := w.Pkg.Var("JSONItemUnmarshal")
					hook := &FuncVal{Alts: []FuncAlt{{C: TTrue, Native: func(ex *Exec, st2 *State, a []Value) Value {
						hookCalled = Or(hookCalled, st2.pc)
						return Fresh("hookerr", SErr)
					}}}}
					st.heap[ex.globalObj(g)] = hook
				}
				var doc *Term
				var resItem *IfaceVal
				switch posn {
				case "top":
					doc = Var("doc", jvSort)
					ex.knownTerms[jType(doc)] = IntLit(jTypeObject)
					resItem = ex.Call(st, w.Func("JSONUnmarshalToItem"), []Value{doc}, nil).(*IfaceVal)
				case "item":
					parent := Var("parent", jvSort)
					doc = jGet(parent, StrLit("object"))
					ex.knownTerms[jType(doc)] = IntLit(jTypeObject)
					resItem = ex.Call(st, w.Func("JSONGetItem"), []Value{parent, StrLit("object")}, nil).(*IfaceVal)
				case "list":
					arr := Var("arr", jvSort)
					ex.assume(Neq(arr, jvNil))
					ex.assume(Eq(jType(arr), IntLit(jTypeArray)))
					ex.knownTerms[App("jlen", SInt, arr)] = IntLit(1)
					ex.knownTerms[jType(arr)] = IntLit(jTypeArray)
					ex.knownTerms[Neq(arr, jvNil)] = TTrue
					doc = Select(App("jarr", ArraySort(jvSort), arr), IntLit(0))
					ex.knownTerms[jType(doc)] = IntLit(jTypeObject)
					r := ex.Call(st, w.Func("JSONItemsFn"), []Value{arr}, nil).(*TupleVal)
					col := r.V[0].(*IfaceVal)
					sl := ex.payloadAs(col, w.Type("ItemCollection")).(*SliceVal)
					ex.assume(Implies(ex.NoPanic(), TTrue))
					resItem = ex.readElem(st, sl, IntLit(0)).(*IfaceVal)
					// the list must have exactly one member
					c.Add(&Obligation{Name: grp + "/list-length", Group: grp, Common: append([]*Term{ex.NoPanic(), c07DocHyp(doc)}, ex.assumes...),
						Hyps: []*Term{strIn(c07DocType(doc), namesNonEmpty(names))}, Goal: And(ex.dynIs(col, w.Type("ItemCollection")), Eq(sliceLen(sl), IntLit(1))), Pos: "JSONItemsFn"})
				}
				typ := c07DocType(doc)
				common := append([]*Term{ex.NoPanic(), c07DocHyp(doc)}, ex.assumes...)
				_ = typ
				for _, n := range names {
					e := entry[n]
					T := w.Type("*" + e.GoType)
					p := ex.payloadAs(resItem, T).(*PtrVal)
					loader := "JSONLoad" + e.GoType
					gotID := ex.fieldVia(st, p, w.Type(e.GoType), "ID").(*Term)
					goal := And(ex.dynIs(resItem, T), nonNilPtr(p), ex.calledWith(loader, 1, p), Not(ex.calledOther([]string{"JSONLoad"}, loader)),
						Eq(gotID, B2S(jStr(jGet(doc, StrLit("id"))))), Not(hookCalled))
					c.Add(&Obligation{Name: fmt.Sprintf("%s/name=%s", grp, n), Group: grp, Common: common, Hyps: []*Term{Eq(typ, StrLit(n))},
						Goal: goal, Pos: "JSONLoadItem", Funcs: []string{"JSONLoadItem", "JSONUnmarshalToItem", "JSONGetItem", "JSONItemsFn", "GetItemByType"},
						Replay: c07JSONReplay(n, e.GoType, posn, cfg == "hooks-set")})
				}
				if cfg == "hooks-unset" {
					var outside []*Term
					for _, n := range names {
						outside = append(outside, Neq(typ, StrLit(n)))
					}
					// outside the vocabulary without hooks: nothing (or an error), never a value
					c.Add(&Obligation{Name: grp + "/outside", Group: grp, Common: common, Hyps: outside,
						Goal: ex.ifaceEq(resItem, &IfaceVal{Alts: []IfaceAlt{{C: TTrue}}}), Pos: "JSONLoadItem", Funcs: []string{"JSONLoadItem"}})
				}
				c.Add(&Obligation{Name: grp + "/cover", Group: grp, ExpectSat: true, Common: common, Hyps: []*Term{Eq(typ, StrLit("Note"))},
					Goal: ex.dynIs(resItem, w.Type("*Object"))})
			})
		}
	}

}
