package main

import (
	"fmt"
	"go/types"
	"sort"
	"strings"

	"golang.org/x/tools/go/ssa"
)

func init() { drivers["C08"] = checkC08 }

type castSite struct {
	fn   *ssa.Function
	src  types.Type // *S
	dst  types.Type // *T
	form string     // ptr | val
	pos  string
	ord  int
}

// findCastSites scans all package functions for (*T)(unsafe.Pointer(p)) and reports other unsafe uses.
func findCastSites(w *World) (sites []castSite, other []string) {
	var fns []*ssa.Function
	for fn := range ssautilAllFunctions(w) {
		fns = append(fns, fn)
	}
	sort.Slice(fns, func(i, j int) bool { return fns[i].String() < fns[j].String() })
	fset := w.Prog.Fset
	seen := map[string]int{}
	for _, fn := range fns {
		for _, b := range fn.Blocks {
			for _, ins := range b.Instrs {
				cv, ok := ins.(*ssa.Convert)
				if !ok {
					continue
				}
				fromUnsafe := classify(cv.X.Type()) == KUnsafePtr
				toUnsafe := classify(cv.Type()) == KUnsafePtr
				if !fromUnsafe && !toUnsafe {
					continue
				}
				p := fset.Position(cv.Pos())
				where := fmt.Sprintf("%s:%d", p.Filename[strings.LastIndex(p.Filename, "/")+1:], p.Line)
				if toUnsafe {
					// must be consumed only by a conversion back to a pointer
					if _, isPtr := cv.X.Type().Underlying().(*types.Pointer); !isPtr {
						other = append(other, fmt.Sprintf("%s: conversion of non-pointer %s to unsafe.Pointer at %s", fnName(fn), cv.X.Type(), where))
					}
					for _, r := range *cv.Referrers() {
						if c2, ok := r.(*ssa.Convert); !ok || classify(c2.Type()) != KPtr {
							if _, isDbg := r.(*ssa.DebugRef); !isDbg {
								other = append(other, fmt.Sprintf("%s: unsafe.Pointer used by %T at %s", fnName(fn), r, where))
							}
						}
					}
					continue
				}
				inner, ok := cv.X.(*ssa.Convert)
				if !ok || classify(inner.X.Type()) != KPtr || classify(cv.Type()) != KPtr {
					other = append(other, fmt.Sprintf("%s: unsupported unsafe.Pointer pattern at %s", fnName(fn), where))
					continue
				}
				form := "ptr"
				if _, isAlloc := inner.X.(*ssa.Alloc); isAlloc {
					form = "val"
				}
				k := fnName(fn) + "|" + typeName(inner.X.Type()) + "|" + form
				seen[k]++
				sites = append(sites, castSite{fn: fn, src: inner.X.Type(), dst: cv.Type(), form: form, pos: where, ord: seen[k]})
			}
		}
	}
	return
}

func ssautilAllFunctions(w *World) map[*ssa.Function]bool {
	res := map[*ssa.Function]bool{}
	var visit func(fn *ssa.Function)
	visit = func(fn *ssa.Function) {
		if fn == nil || res[fn] {
			return
		}
		res[fn] = true
		for _, a := range fn.AnonFuncs {
			visit(a)
		}
	}
	for _, m := range w.Pkg.Members {
		switch x := m.(type) {
		case *ssa.Function:
			visit(x)
		case *ssa.Type:
			for _, t := range []types.Type{x.Type(), types.NewPointer(x.Type())} {
				ms := w.Prog.MethodSets.MethodSet(t)
				for i := 0; i < ms.Len(); i++ {
					if f := w.Prog.MethodValue(ms.At(i)); f != nil && f.Synthetic == "" {
						visit(f)
					}
				}
			}
		}
	}
	// instantiations of generics reachable from the above
	for changed := true; changed; {
		changed = false
		for fn := range res {
			for _, b := range fn.Blocks {
				for _, ins := range b.Instrs {
					if c, ok := ins.(ssa.CallInstruction); ok {
						if callee := c.Common().StaticCallee(); callee != nil && !res[callee] {
							if o := callee.Origin(); o != nil && o.Pkg == w.Pkg {
								visit(callee)
								changed = true
							}
						}
					}
				}
			}
		}
	}
	return res
}

func checkC08(w *World, c *Check) {
	c.Exhaustive = true
	c.Trusted = append(c.Trusted,
		"go/types struct layout (types.SizesFor gc/amd64 and gc/386) equals the compiler's layout",
		"Go semantics: reading/writing field k through a pointer reinterpreted to a type whose first k+1 fields have identical names, types and offsets accesses the same memory",
		"reflectItemToType refuses non-convertible dynamic types (reflect.Type.ConvertibleTo; assumed contract of package reflect)")
	c.Assume = append(c.Assume,
		"conversion sites are found by scanning the SSA of every function and method of the package for Convert(unsafe.Pointer); any other use of unsafe.Pointer is reported as a failed obligation",
		"the one renaming admitted between views is Items <-> OrderedItems (ordered vs unordered collection families)",
		"the runtime pointer checker (checkptr) part of the quantifier is a dynamic technique and is not part of this check")
	sites, other := findCastSites(w)
	for i, o := range other {
		c.Add(&Obligation{Name: fmt.Sprintf("C08/unsafe/recognised-pattern#%d", i), Goal: TFalse, Pos: o,
			Notes: []string{o}})
	}
	c.Add(&Obligation{Name: "C08/sites/found", Goal: Gt(IntLit(int64(len(sites))), IntLit(0)), Pos: "package scan"})
	for _, sz := range []struct {
		name string
		s    types.Sizes
	}{{"amd64", types.SizesFor("gc", "amd64")}, {"386", types.SizesFor("gc", "386")}} {
		for _, s := range sites {
			S := s.src.Underlying().(*types.Pointer).Elem()
			T := s.dst.Underlying().(*types.Pointer).Elem()
			base := fmt.Sprintf("C08/%s/src=%s/%s", fnName(s.fn), typeName(S), s.form)
			if s.ord > 1 {
				base += fmt.Sprintf("#%d", s.ord)
			}
			if sz.name != "amd64" {
				base += "/arch=" + sz.name
			}
			c.FUC[fnName(s.fn)] = true
			ss, okS := S.Underlying().(*types.Struct)
			ts, okT := T.Underlying().(*types.Struct)
			if !okS || !okT {
				c.Add(&Obligation{Name: base + "/struct-types", Goal: TFalse, Pos: s.pos})
				continue
			}
			sizeS, sizeT := sz.s.Sizeof(S), sz.s.Sizeof(T)
			Sn, Tn := typeName(S), typeName(T)
			c.Add(&Obligation{Name: base + "/size", Goal: Le(IntLit(sizeT), IntLit(sizeS)), Pos: s.pos, Funcs: []string{fnName(s.fn)},
				Replay: func(map[string]string) string {
					return fmt.Sprintf(`package activitypub

import (
	"testing"
	"unsafe"
)

func TestVerifReplay(t *testing.T) {
	if unsafe.Sizeof(%s{}) > unsafe.Sizeof(%s{}) {
		t.Fatalf("a *%s viewed as *%s exposes %%d bytes but the value only has %%d", unsafe.Sizeof(%s{}), unsafe.Sizeof(%s{}))
	}
}
`, Tn, Sn, Sn, Tn, Tn, Sn)
				}})
			var sf, tf []*types.Var
			for i := 0; i < ss.NumFields(); i++ {
				sf = append(sf, ss.Field(i))
			}
			for i := 0; i < ts.NumFields(); i++ {
				tf = append(tf, ts.Field(i))
			}
			so, to := sz.s.Offsetsof(sf), sz.s.Offsetsof(tf)
			for k := 0; k < ts.NumFields(); k++ {
				name := tf[k].Name()
				ob := &Obligation{Name: fmt.Sprintf("%s/field=%s", base, name), Pos: s.pos, Funcs: []string{fnName(s.fn)}}
				if k >= ss.NumFields() {
					ob.Goal = TFalse
					ob.Notes = []string{fmt.Sprintf("field %s of %s has no counterpart in %s", name, Tn, Sn)}
				} else {
					nameOK := sf[k].Name() == name ||
						(sf[k].Name() == "Items" && name == "OrderedItems") || (sf[k].Name() == "OrderedItems" && name == "Items")
					ob.Goal = And(BoolLit(nameOK), BoolLit(layoutSameType(sf[k].Type(), tf[k].Type())), Eq(IntLit(so[k]), IntLit(to[k])))
					kk := k
					ob.Replay = func(map[string]string) string {
						return fmt.Sprintf(`package activitypub

import (
	"reflect"
	"testing"
)

func TestVerifReplay(t *testing.T) {
	sf := reflect.TypeOf(%s{}).Field(%d)
	df := reflect.TypeOf(%s{}).Field(%d)
	sameName := sf.Name == df.Name || (sf.Name == "Items" && df.Name == "OrderedItems") || (sf.Name == "OrderedItems" && df.Name == "Items")
	if !sameName || sf.Offset != df.Offset || !sf.Type.ConvertibleTo(df.Type) || sf.Type.Kind() != df.Type.Kind() {
		t.Fatalf("field #%d of the view type is %%s %%v at offset %%d, but the viewed value has %%s %%v at offset %%d there", df.Name, df.Type, df.Offset, sf.Name, sf.Type, sf.Offset)
	}
}
`, Sn, kk, Tn, kk, kk)
					}
				}
				c.Add(ob)
			}
		}
	}
	c.Notes = append(c.Notes, fmt.Sprintf("%d pointer-reinterpreting conversion sites found", len(sites)))
	checkC08Views(w, c)
}

// layoutSameType: identical types, or two interface types with identical method sets
// (e.g. Item vs CanReceiveActivities, declared as `type CanReceiveActivities Item`).
func layoutSameType(a, b types.Type) bool {
	if types.Identical(a, b) {
		return true
	}
	_, ia := a.Underlying().(*types.Interface)
	_, ib := b.Underlying().(*types.Interface)
	return ia && ib && types.Identical(a.Underlying(), b.Underlying())
}

// prefixCompatible: T's fields are a layout-faithful prefix of S's fields.
func prefixCompatible(sz types.Sizes, S, T types.Type) bool {
	ss, ok1 := S.Underlying().(*types.Struct)
	ts, ok2 := T.Underlying().(*types.Struct)
	if !ok1 || !ok2 || ts.NumFields() > ss.NumFields() || sz.Sizeof(T) > sz.Sizeof(S) {
		return false
	}
	var sf, tf []*types.Var
	for i := 0; i < ss.NumFields(); i++ {
		sf = append(sf, ss.Field(i))
	}
	for i := 0; i < ts.NumFields(); i++ {
		tf = append(tf, ts.Field(i))
	}
	so, to := sz.Offsetsof(sf), sz.Offsetsof(tf)
	for k := range tf {
		nameOK := sf[k].Name() == tf[k].Name() || (sf[k].Name() == "Items" && tf[k].Name() == "OrderedItems") || (sf[k].Name() == "OrderedItems" && tf[k].Name() == "Items")
		if !nameOK || !layoutSameType(sf[k].Type(), tf[k].Type()) || so[k] != to[k] {
			return false
		}
	}
	return true
}

// toFunctions: exported package-level functions of shape To<X>(it) (*T, error) with T a local struct.
func toFunctions(w *World) []*ssa.Function {
	var r []*ssa.Function
	var names []string
	for n := range w.Pkg.Members {
		names = append(names, n)
	}
	sort.Strings(names)
	for _, n := range names {
		fn, ok := w.Pkg.Members[n].(*ssa.Function)
		if !ok || !strings.HasPrefix(n, "To") || fn.TypeParams().Len() > 0 {
			continue
		}
		sig := fn.Signature
		if sig.Params().Len() != 1 || sig.Results().Len() != 2 {
			continue
		}
		if _, isIf := sig.Params().At(0).Type().Underlying().(*types.Interface); !isIf {
			continue
		}
		p, ok := sig.Results().At(0).Type().Underlying().(*types.Pointer)
		if !ok || !isLocalNamed(p.Elem()) {
			continue
		}
		if _, ok := p.Elem().Underlying().(*types.Struct); !ok {
			continue
		}
		r = append(r, fn)
	}
	return r
}

// checkC08Views executes every To* helper on every item dynamic type and demands: a pointer source
// is aliased (writes through the view reach the original), a value source yields a faithful copy,
// and a source whose layout does not contain the target as a prefix is refused with an error.
func checkC08Views(w *World, c *Check) {
	sz := types.SizesFor("gc", "amd64")
	for _, fn := range toFunctions(w) {
		fn := fn
		T := fn.Signature.Results().At(0).Type().Underlying().(*types.Pointer).Elem()
		ex0 := w.NewExec()
		for _, X := range ex0.itemTypes() {
			X := X
			var S types.Type = X
			ptrForm := false
			if p, ok := X.Underlying().(*types.Pointer); ok {
				S, ptrForm = p.Elem(), true
			}
			if _, ok := S.Underlying().(*types.Struct); !ok {
				continue
			}
			if !types.Implements(X, fn.Signature.Params().At(0).Type().Underlying().(*types.Interface)) {
				continue
			}
			name := fmt.Sprintf("C08/%s/dyn=%s", fn.Name(), typeName(X))
			guard(c, name, func() {
				ex := w.NewExec()
				st := newState()
				iv, obj, sv := ex.symItemOfType(X, "x")
				res := ex.Call(st, fn, []Value{iv}, nil).(*TupleVal)
				rp, err := res.V[0].(*PtrVal), res.V[1].(*Term)
				hy := append([]*Term{ex.NoPanic()}, ex.assumes...)
				pos := ex.pos(fn.Pos())
				compat := prefixCompatible(sz, S, T)
				grp := name
				if !compat {
					c.Add(&Obligation{Name: name + "/refuse", Group: grp, Common: hy, Goal: Neq(err, ErrNil), Pos: pos, Funcs: []string{fn.Name()},
						Replay: c08RefuseReplay(fn.Name(), X)})
					return
				}
				if ptrForm {
					arg := &PtrVal{Alts: []PtrAlt{{C: TTrue, O: obj}}}
					c.Add(&Obligation{Name: name + "/alias", Group: grp, Common: hy, Hyps: []*Term{Eq(err, ErrNil)}, Goal: ex.ptrEq(rp, arg), Pos: pos, Funcs: []string{fn.Name()},
						Replay: c08AliasReplay(fn.Name(), X)})
					return
				}
				// value form: the view points to a copy whose shared fields equal the source's
				var goal []*Term
				for _, al := range rp.Alts {
					if al.O == nil {
						goal = append(goal, Not(al.C))
						continue
					}
					got := ex.navigate(st, ex.heapGet(st, al.O), al.Path, al.O)
					gsv, ok := got.(*StructVal)
					if !ok {
						goal = append(goal, Not(al.C))
						continue
					}
					nT := T.Underlying().(*types.Struct).NumFields()
					var eqs []*Term
					for k := 0; k < nT && k < len(gsv.F) && k < len(sv.F); k++ {
						eqs = append(eqs, ex.valueEq(gsv.F[k], sv.F[k]))
					}
					goal = append(goal, Implies(al.C, And(eqs...)))
				}
				c.Add(&Obligation{Name: name + "/faithful-copy", Group: grp, Common: hy, Hyps: []*Term{Eq(err, ErrNil)}, Goal: And(goal...), Pos: pos, Funcs: []string{fn.Name()}})
			})
		}
	}
}

func c08AliasReplay(fn string, X types.Type) func(map[string]string) string {
	return func(map[string]string) string {
		el := strings.TrimPrefix(typeName(X), "*")
		return fmt.Sprintf(`package activitypub

import "testing"

func TestVerifReplay(t *testing.T) {
	orig := &%s{}
	view, err := %s(orig)
	if err != nil || view == nil {
		t.Skipf("conversion refused: %%v", err)
	}
	view.ID = "https://example.com/written-through-the-view"
	if orig.ID != view.ID {
		t.Fatalf("a write through the %s view of a *%s is not seen by the original (the view is a copy)")
	}
}
`, el, fn, fn, el)
	}
}

func c08RefuseReplay(fn string, X types.Type) func(map[string]string) string {
	return func(map[string]string) string {
		el := strings.TrimPrefix(typeName(X), "*")
		mk := "&" + el + "{}"
		if !strings.HasPrefix(typeName(X), "*") {
			mk = el + "{}"
		}
		return fmt.Sprintf(`package activitypub

import "testing"

func TestVerifReplay(t *testing.T) {
	v, err := %s(%s)
	if err == nil {
		t.Fatalf("%s accepted a %s although its layout does not contain the target type as a prefix (view %%T)", v)
	}
}
`, fn, mk, fn, typeName(X))
	}
}
