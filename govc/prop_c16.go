package main

import (
	"fmt"
	"go/types"
	"strings"

	"golang.org/x/tools/go/ssa"
)

func init() { drivers["C16"] = checkC16 }

func installIsNilSpecHook(ex *Exec) {
	ex.hooks["IsNil"] = func(ex *Exec, st *State, f *ssa.Function, a []Value) (Value, bool) {
		return ex.isNilSpec(asItemVal(a[0])), true
	}
}

// asItemVal: an item argument; an element read beyond every alternative's length (dead path) is any item.
func asItemVal(v Value) *IfaceVal {
	if iv, ok := v.(*IfaceVal); ok {
		return iv
	}
	return opaqueItem(Fresh("oob", SItem))
}

// itemPreds: the item's own answers (results of its methods) as terms.
func mIsObject(x *Term) *Term     { return App("m.IsObject", SBool, x) }
func mIsCollection(x *Term) *Term { return App("m.IsCollection", SBool, x) }
func mGetLink(x *Term) *Term      { return App("m.GetLink", SStr, x) }

// flattenPosGoals: the statement's rule for one position holding item x before and r after.
func (ex *Exec) flattenPosGoals(w *World, x *Term, r *IfaceVal) (flat, keep *Term) {
	iriT := w.Type("IRI")
	isNil := ex.isNilSpec(opaqueItem(x))
	hasID := Gt(SLen(mGetLink(x)), IntLit(0))
	var payload *Term = StrLit("")
	if _, v := ex.assertTo(ex.normIface(r), iriT); v != nil {
		payload = v.(*Term)
	}
	flat = Implies(And(Not(isNil), mIsObject(x), Not(mIsCollection(x)), hasID), And(ex.dynIs(r, iriT), Eq(payload, mGetLink(x))))
	keep = And(Implies(And(Not(isNil), Not(mIsCollection(x)), Or(Not(mIsObject(x)), Not(hasID))), Eq(ex.abstractItem(r), x)),
		Implies(isNil, ex.isNilSpec(r)))
	return
}

var c16Single = map[string][]string{
	"FlattenObjectProperties":               {"AttributedTo", "Replies", "Likes", "Shares"},
	"FlattenActorProperties":                {"AttributedTo", "Replies", "Likes", "Shares"},
	"FlattenIntransitiveActivityProperties": {"Actor", "Target", "Result", "Origin", "Instrument", "AttributedTo", "Replies", "Likes", "Shares"},
	"FlattenActivityProperties":             {"Actor", "Object", "Target", "Result", "Origin", "Instrument", "AttributedTo", "Replies", "Likes", "Shares"},
}
var c16Lists = []string{"To", "Bto", "CC", "BCC", "Audience"}

func checkC16(w *World, c *Check) {
	c.Trusted = append(c.Trusted,
		"an embedded item is known only through its own methods: IsObject, IsCollection, GetLink/GetID are uninterpreted pure functions of the item (C07 ties them to the vocabulary); IsNil enters by its contract (C20)",
		"IRI.Equals is the relation iriEq (C14); append yields a fresh sequence (in-place reuse of a list's backing array is not modelled)",
		"C08 views; go/types + go/ssa; SMT solvers' unsat answers")
	c.Assume = append(c.Assume,
		"'object that has an id' = IsObject() and a non-empty GetLink(); 'stay as they were' for a nil-like item = nil-like afterwards",
		"single positions are proved for arbitrary non-collection items; the five addressing lists (FlattenItemCollection over ItemCollectionDeduplication) are NOT claimed by this check: only that the functions leave them alone when empty (frame) — see DESIGN.md",
		"collections in single positions (replies/likes/shares holding a collection) are outside the statement's 'non-collection object' clause")
	for fname, positions := range c16Single {
		fname, positions := fname, positions
		grp := "C16/" + fname
		guard(c, grp, func() {
			ex := w.NewExec()
			installIsNilSpecHook(ex)
			ex.installIRIEqualsHook()
			st := newState()
			fn := w.Func(fname)
			pt := fn.Signature.Params().At(0).Type()
			S := pt.Underlying().(*types.Pointer).Elem()
			_, obj, sv := ex.symItemOfType(pt, "x")
			// the addressing lists are handled separately (bounded); here they are empty
			fl := append([]Value(nil), sv.F...)
			for _, l := range c16Lists {
				fl[fieldIndex(S, l)] = ex.zeroValue(S.Underlying().(*types.Struct).Field(fieldIndex(S, l)).Type())
			}
			sv = &StructVal{T: sv.T, F: fl}
			st.heap[obj] = sv
			// collections in single positions are outside the clause: the items here answer IsCollection() = false
			for _, p := range positions {
				x := ex.abstractItem(sv.F[fieldIndex(S, p)].(*IfaceVal))
				ex.knownTerms[mIsCollection(x)] = TFalse
				ex.assume(Not(mIsCollection(x)))
			}
			ex.Call(st, fn, []Value{&PtrVal{Alts: []PtrAlt{{C: TTrue, O: obj}}}}, nil)
			final := ex.heapGet(st, obj).(*StructVal)
			common := append([]*Term{ex.NoPanic()}, ex.assumes...)
			pos := ex.pos(fn.Pos())
			isPos := map[string]bool{}
			for _, p := range positions {
				isPos[p] = true
				k := fieldIndex(S, p)
				x := ex.abstractItem(sv.F[k].(*IfaceVal))
				flat, keep := ex.flattenPosGoals(w, x, final.F[k].(*IfaceVal))
				rp := c16Replay(fname, typeName(S), p)
				c.Add(&Obligation{Name: fmt.Sprintf("%s/pos=%s/flattened", grp, p), Group: grp, Common: common, Goal: flat, Pos: pos, Funcs: []string{fname, "FlattenToIRI", "Flatten"}, Replay: rp})
				c.Add(&Obligation{Name: fmt.Sprintf("%s/pos=%s/kept", grp, p), Group: grp, Common: common, Goal: keep, Pos: pos, Funcs: []string{fname, "FlattenToIRI", "Flatten"}, Replay: rp})
			}
			stT := S.Underlying().(*types.Struct)
			for k := 0; k < stT.NumFields(); k++ {
				n := stT.Field(k).Name()
				if isPos[n] {
					continue
				}
				c.Add(&Obligation{Name: fmt.Sprintf("%s/frame/field=%s", grp, n), Group: grp, Common: common, Goal: ex.normEqLists(st, final.F[k], sv.F[k]), Pos: pos, Funcs: []string{fname}})
			}
			for i, p := range ex.panics {
				c.Add(&Obligation{Name: fmt.Sprintf("%s/nopanic/%s#%d", grp, p.Kind, i), Group: grp + "/nopanic", Common: ex.assumes, Goal: Not(p.C), Pos: p.Pos, Funcs: []string{fname}})
			}
		})
	}
	// idempotence of a position: a flattened position holds an IRI, and IRIs are kept
	maxN := 3
	if c.Tier == "thorough" {
		maxN = 4
	}
	for n := 1; n <= maxN; n++ {
		c16ListBounded(w, c, n)
	}
	guard(c, "C16/idempotent", func() {
		ex := w.NewExec()
		installIsNilSpecHook(ex)
		st := newState()
		for _, f := range []string{"FlattenToIRI", "Flatten"} {
			iri := Var("iri", SStr)
			iv := &IfaceVal{Alts: []IfaceAlt{{C: TTrue, T: w.Type("IRI"), V: iri}}}
			r := ex.Call(st, w.Func(f), []Value{iv}, nil).(*IfaceVal)
			_, pl := ex.assertTo(ex.normIface(r), w.Type("IRI"))
			goal := TFalse
			if pl != nil {
				goal = Or(And(ex.dynIs(r, w.Type("IRI")), Eq(pl.(*Term), iri)), And(ex.isNilSpec(iv), ex.isNilSpec(r)))
			}
			c.Add(&Obligation{Name: "C16/idempotent/" + f + "(IRI)", Group: "C16/idempotent", Common: append([]*Term{ex.NoPanic()}, ex.assumes...), Goal: goal, Pos: f, Funcs: []string{f}})
		}
	})
	// dispatch of FlattenProperties per vocabulary name
	guard(c, "C16/FlattenProperties", func() {
		fams := map[string][]string{"activity": {"FlattenActivityProperties"}, "intransitive": {"FlattenIntransitiveActivityProperties"},
			"actor": {"FlattenActorProperties"}, "object": {"FlattenObjectProperties"}}
		for _, e := range vocab {
			e := e
			want, ok := fams[e.Family]
			if !ok || e.Generic {
				continue
			}
			grp := "C16/FlattenProperties/name=" + e.Name
			guard(c, grp, func() {
				ex := w.NewExec()
				for _, f := range []string{"FlattenActivityProperties", "FlattenIntransitiveActivityProperties", "FlattenActorProperties", "FlattenObjectProperties"} {
					f := f
					ex.installRecorder(f, func(ex *Exec, st *State, fn *ssa.Function, a []Value) Value { return a[0] })
				}
				st := newState()
				T := w.Type("*" + e.GoType)
				_, obj, sv := ex.symItemOfType(T, "x")
				fl := append([]Value(nil), sv.F...)
				fl[fieldIndex(w.Type(e.GoType), "Type")] = StrLit(e.Name)
				st.heap[obj] = &StructVal{T: sv.T, F: fl}
				ptr := &PtrVal{Alts: []PtrAlt{{C: TTrue, O: obj}}}
				in := &IfaceVal{Alts: []IfaceAlt{{C: TTrue, T: T, V: ptr}}}
				out, _ := ex.Call(st, w.Func("FlattenProperties"), []Value{in}, nil).(*IfaceVal)
				if out != nil {
					c.Add(&Obligation{Name: grp + "/returns-the-item", Common: append([]*Term{ex.NoPanic()}, ex.assumes...), Goal: ex.ifaceEq(out, in), Pos: "FlattenProperties", Funcs: []string{"FlattenProperties"},
						Replay: c16DispatchReplay(e.Name, e.GoType)})
				}
				var called []*Term
				for _, rec := range ex.calls {
					if rec.Name == want[0] {
						if q, ok := rec.Args[0].(*PtrVal); ok {
							called = append(called, And(rec.C, ex.ptrEq(q, ptr)))
						}
					}
				}
				c.Add(&Obligation{Name: grp, Common: append([]*Term{ex.NoPanic()}, ex.assumes...), Goal: Or(called...), Pos: "FlattenProperties", Funcs: []string{"FlattenProperties"},
					Replay: c16DispatchReplay(e.Name, e.GoType)})
			})
		}
	})
}

// normEqLists: unchanged, where an empty list may come back as the same empty list.
func (ex *Exec) normEqLists(st *State, a, b Value) *Term {
	if x, ok := a.(*SliceVal); ok {
		y := b.(*SliceVal)
		return Or(ex.sliceIdentical(x, y), And(Eq(sliceLen(x), IntLit(0)), Eq(sliceLen(y), IntLit(0))))
	}
	return ex.valueEq(a, b)
}

func c16Replay(fn, typ, pos string) func(map[string]string) string {
	return func(map[string]string) string {
		return fmt.Sprintf(`package activitypub

import (
	"reflect"
	"testing"
)

func TestVerifReplay(t *testing.T) {
	samples := map[string]Item{
		"object with id": &Object{ID: "https://example.com/verif/o", Type: NoteType, Summary: NaturalLanguageValues{{Value: Content("s")}}},
		"actor with id":  &Actor{ID: "https://example.com/verif/a", Type: PersonType},
		"object without id": &Object{Type: NoteType, Summary: NaturalLanguageValues{{Value: Content("s")}}},
		"link":             &Link{ID: "https://example.com/verif/l", Type: LinkType, Href: "https://example.com/verif/href"},
		"mention value":    Link{Type: MentionType, Href: "https://example.com/verif/href"},
		"iri":              IRI("https://example.com/verif/i"),
	}
	for name, it := range samples {
		x := &%s{ID: "https://example.com/verif/x"}
		reflect.ValueOf(x).Elem().FieldByName(%q).Set(reflect.ValueOf(it))
		%s(x)
		got := reflect.ValueOf(x).Elem().FieldByName(%q).Interface()
		switch name {
		case "object with id", "actor with id":
			if iri, ok := got.(IRI); !ok || iri != it.GetLink() {
				t.Fatalf("%%s in %s: want the IRI %%s, got %%#v", name, it.GetLink(), got)
			}
		default:
			if !reflect.DeepEqual(got, it) {
				t.Fatalf("%%s in %s must stay as it was, got %%#v", name, got)
			}
		}
	}
}
`, typ, pos, fn, pos, pos, pos)
	}
}

func c16DispatchReplay(name, goType string) func(map[string]string) string {
	return func(map[string]string) string {
		return fmt.Sprintf(`package activitypub

import "testing"

func TestVerifReplay(t *testing.T) {
	x := &%s{ID: "https://example.com/verif/x", Type: %s}
	x.AttributedTo = &Actor{ID: "https://example.com/verif/a", Type: PersonType}
	FlattenProperties(x)
	if _, ok := x.AttributedTo.(IRI); !ok {
		t.Fatalf("FlattenProperties left attributedTo of a %s embedded: %%#v", x.AttributedTo)
	}
}
`, goType, goTypeLit(name), name)
	}
}

func c16ListReplay() func(map[string]string) string {
	return func(map[string]string) string {
		return strings.TrimSpace(`
package activitypub

import (
	"reflect"
	"testing"
)

func TestVerifReplay(t *testing.T) {
	a := &Actor{ID: "https://example.com/verif/a", Type: PersonType}
	anon := &Object{Type: NoteType, Summary: NaturalLanguageValues{{Value: Content("s")}}}
	l := &Link{Type: MentionType, Href: "https://example.com/verif/h"}
	i := IRI("https://example.com/verif/i")
	lists := [][]Item{{a}, {anon, a}, {a, anon, i}, {l, a}, {i, a, l}, {anon, i, a}}
	for _, in := range lists {
		col := append(ItemCollection{}, in...)
		out := FlattenItemCollection(col)
		if len(out) != len(in) {
			t.Fatalf("flattening %v changed the length: %v", in, out)
		}
		for k, it := range in {
			want := it
			if it.IsObject() && it.GetLink() != "" {
				want = it.GetLink()
			}
			if it.IsLink() && it.GetLink() != "" {
				if g, ok := out[k].(IRI); ok && g == it.GetLink() {
					continue
				}
			}
			if !reflect.DeepEqual(out[k], want) {
				t.Fatalf("entry %d of %v: want %#v, got %#v (whole list %v)", k, in, want, out[k], out)
			}
		}
	}
}
`) + "\n"
	}
}

// c16ListBounded: the real FlattenItemCollection (over the real ItemCollectionDeduplication) on a list of n
// arbitrary items: survivors of the de-duplication keep their order, each survivor that is an object with an
// id is replaced by the IRI of that id, everything else (IRIs, links, id-less objects, nil entries) is the same item.
func c16ListBounded(w *World, c *Check, n int) {
	grp := fmt.Sprintf("C16/list/entries=%d", n)
	guard(c, grp, func() {
		ex := w.NewExec()
		ex.symLoopBound = n + 1
		ex.unwindAssert = true
		installIsNilSpecHook(ex)
		var eqArgs []*Term
		seen := map[*Term]bool{}
		ex.hooks["(IRI).Equals"] = func(ex *Exec, st *State, fn *ssa.Function, args []Value) (Value, bool) {
			for _, a := range args[:2] {
				if t := a.(*Term); !seen[t] {
					seen[t] = true
					eqArgs = append(eqArgs, t)
				}
			}
			return App("iriEq", SBool, args[0].(*Term), args[1].(*Term), args[2].(*Term)), true
		}
		st := newState()
		var es []*Term
		for k := 0; k < n; k++ {
			es = append(es, Var(fmt.Sprintf("e%d", k), SItem))
		}
		p, _ := ex.mkItemList(w, "col", es)
		col := ex.load(st, p, nil, 0).(*SliceVal)
		fn := w.Func("FlattenItemCollection")
		res := ex.Call(st, fn, []Value{col}, nil).(*SliceVal)
		eq := func(a, b *Term) *Term { return App("iriEq", SBool, a, b, TFalse) }
		type ent struct {
			e, key, counted, first, keep *Term
		}
		var ents []*ent
		for k, e := range es {
			en := &ent{e: e}
			en.key = Ite(mIsObject(e), App("m.GetID", SStr, e), mGetLink(e))
			// an entry takes part in the de-duplication when it names somebody: an object or link with a non-empty id
			en.counted = And(Not(ex.isNilSpec(opaqueItem(e))), Or(mIsObject(e), App("m.IsLink", SBool, e)), Gt(SLen(en.key), IntLit(0)))
			var dup []*Term
			for _, pr := range ents[:k] {
				dup = append(dup, And(pr.counted, eq(en.key, pr.key)))
			}
			en.first = And(en.counted, Not(Or(dup...)))
			en.keep = Or(Not(en.counted), en.first)
			ents = append(ents, en)
		}
		var dom []*Term
		for _, en := range ents {
			dom = append(dom, en.key)
		}
		dom = append(dom, eqArgs...)
		var equiv []*Term
		for _, a := range dom {
			equiv = append(equiv, eq(a, a))
			for _, b := range dom {
				equiv = append(equiv, Implies(eq(a, b), eq(b, a)))
				for _, d := range dom {
					equiv = append(equiv, Implies(And(eq(a, b), eq(b, d)), eq(a, d)))
				}
			}
		}
		// an object's link is its id
		for _, e := range es {
			equiv = append(equiv, Implies(mIsObject(e), Eq(App("m.GetID", SStr, e), mGetLink(e))))
		}
		common := append(append([]*Term{ex.NoPanic()}, equiv...), ex.assumes...)
		pos := ex.pos(fn.Pos())
		fns := []string{"FlattenItemCollection", "ItemCollectionDeduplication"}
		var keeps []*Term
		for _, en := range ents {
			keeps = append(keeps, en.keep)
		}
		c.Add(&Obligation{Name: grp + "/length", Group: grp, Common: common, Goal: Eq(sliceLen(res), sumBools(keeps)), Pos: pos, Funcs: fns, Bounded: n, Replay: c16ListBoundedReplay})
		for k, en := range ents {
			at, ok := ex.readElem(st, res, sumBools(keeps[:k])).(*IfaceVal)
			if !ok {
				at = &IfaceVal{Alts: []IfaceAlt{{C: TTrue}}}
			}
			flat, keep := ex.flattenPosGoals(w, en.e, at)
			c.Add(&Obligation{Name: fmt.Sprintf("%s/survivor-%d/object-with-id-becomes-its-iri", grp, k), Group: grp, Common: common, Hyps: []*Term{en.keep, Not(mIsCollection(en.e))}, Goal: flat, Pos: pos, Funcs: fns, Bounded: n, Replay: c16ListBoundedReplay})
			c.Add(&Obligation{Name: fmt.Sprintf("%s/survivor-%d/everything-else-stays", grp, k), Group: grp, Common: common, Hyps: []*Term{en.keep, Not(mIsCollection(en.e))}, Goal: keep, Pos: pos, Funcs: fns, Bounded: n, Replay: c16ListBoundedReplay})
		}
		for i, r := range ex.residuals {
			c.Add(&Obligation{Name: fmt.Sprintf("%s/unwinding#%d", grp, i), Group: grp + "/unwinding", Common: append(equiv, ex.assumes...), Goal: Not(r), Pos: pos, Funcs: fns, Bounded: n})
		}
		for i, pn := range ex.panics {
			c.Add(&Obligation{Name: fmt.Sprintf("%s/nopanic/%s#%d", grp, pn.Kind, i), Group: grp + "/nopanic", Common: append(equiv, ex.assumes...), Goal: Not(pn.C), Pos: pn.Pos, Funcs: fns, Bounded: n})
		}
	})
}

func c16ListBoundedReplay(map[string]string) string {
	return `package activitypub

import "testing"

func TestVerifReplay(t *testing.T) {
	iri := func(s string) IRI { return IRI("https://example.com/verif/" + s) }
	obj := func(s string) Item { return &Object{ID: iri(s), Type: NoteType} }
	anon := func(s string) Item { return &Object{Type: NoteType, Name: NaturalLanguageValues{{Value: Content(s)}}} }
	link := func(s string) Item { return &Link{Href: iri(s), Type: MentionType} }
	pool := []func() Item{func() Item { return iri("a") }, func() Item { return obj("a") }, func() Item { return obj("b") }, func() Item { return anon("x") }, func() Item { return anon("y") }, func() Item { return link("l") }, func() Item { return nil }}
	same := func(a, b Item) bool {
		if IsNil(a) || IsNil(b) {
			return IsNil(a) && IsNil(b)
		}
		return a == b
	}
	var rec func(cur []int, depth int)
	check := func(idx []int) {
		var in ItemCollection
		for _, i := range idx {
			in = append(in, pool[i]())
		}
		orig := append(ItemCollection{}, in...)
		out := FlattenItemCollection(in)
		// expected: drop later mentions of an id already seen; objects with id -> IRI; everything else the same item
		var want ItemCollection
		seen := map[IRI]bool{}
		for _, it := range orig {
			if !IsNil(it) && (it.IsObject() || it.IsLink()) {
				id := it.GetLink()
				if it.IsObject() {
					id = it.GetID()
				}
				if id != "" {
					if seen[id] {
						continue
					}
					seen[id] = true
				}
			}
			want = append(want, it)
		}
		if len(out) != len(want) {
			t.Errorf("%v: %d entries after flattening, want %d (%v)", idx, len(out), len(want), out)
			return
		}
		for k := range want {
			w := want[k]
			if !IsNil(w) && w.IsObject() && w.GetLink() != "" {
				if got, ok := out[k].(IRI); !ok || got != w.GetLink() {
					t.Errorf("%v: position %d holds %v, want the IRI %s", idx, k, out[k], w.GetLink())
				}
			} else if !same(out[k], w) {
				t.Errorf("%v: position %d holds %v, want the original entry %v", idx, k, out[k], w)
			}
		}
	}
	rec = func(cur []int, depth int) {
		if len(cur) > 0 {
			check(cur)
		}
		if depth == 3 {
			return
		}
		for i := range pool {
			rec(append(append([]int{}, cur...), i), depth+1)
		}
	}
	rec(nil, 0)
}
`
}
