package main

import (
	"fmt"
	"go/types"
	"strings"

	"golang.org/x/tools/go/ssa"
)

func init() { drivers["C09"] = checkC09 }

// installEqContracts: at nested positions the comparisons are used by contract:
//   ItemsEqual(a,b) = itemsEq(a,b), reflexive on a strictly smaller (sub-)item (induction hypothesis);
//   IRI.Equals = iriEq, reflexive (C14); NaturalLanguageValues.Equals = nlvEq, reflexive (C19 contract).
func installEqContracts(ex *Exec) {
	ex.hooks["ItemsEqual"] = func(ex *Exec, st *State, f *ssa.Function, a []Value) (Value, bool) {
		// the swap self-call ItemsEqual(with, it) on the two top-level (concrete) items is part of the body
		concrete := func(v Value) bool {
			iv := v.(*IfaceVal)
			return len(iv.Alts) == 1 && iv.Alts[0].Opaque == nil && iv.Alts[0].T != nil
		}
		if concrete(a[0]) && concrete(a[1]) {
			if _, isPtr := a[0].(*IfaceVal).Alts[0].V.(*PtrVal); isPtr {
				return nil, false
			}
		}
		x, y := ex.abstractItem(a[0].(*IfaceVal)), ex.abstractItem(a[1].(*IfaceVal))
		if x == y {
			return TTrue, true
		}
		return App("itemsEq", SBool, x, y), true
	}
	ex.hooks["(IRI).Equals"] = func(ex *Exec, st *State, f *ssa.Function, a []Value) (Value, bool) {
		if a[0] == a[1] {
			return TTrue, true
		}
		return App("iriEq", SBool, a[0].(*Term), a[1].(*Term), a[2].(*Term)), true
	}
	ex.hooks["(NaturalLanguageValues).Equals"] = func(ex *Exec, st *State, f *ssa.Function, a []Value) (Value, bool) {
		return ex.nlvEqTerm(a[0].(*SliceVal), a[1].(*SliceVal)), true
	}
	// a member list compared through ItemCollection.Equals (ordered collections): the relation icEq, reflexive on
	// one and the same list (every member finds itself, members being reflexive by the induction hypothesis)
	ex.hooks["(ItemCollection).Equals"] = func(ex *Exec, st *State, f *ssa.Function, a []Value) (Value, bool) {
		x, ok1 := a[0].(*SliceVal)
		y, ok2 := a[1].(*SliceVal)
		if !ok1 || !ok2 {
			return nil, false
		}
		ka, kb := sliceKey(x), sliceKey(y)
		if ka == kb {
			return TTrue, true
		}
		return App("icEq", SBool, ka, kb), true
	}
}

func sliceKey(s *SliceVal) *Term {
	var r *Term
	for _, al := range s.Alts {
		id := int64(0)
		if al.O != nil {
			id = int64(al.O.id)
		}
		t := App("slice.id", Sort("SliceId"), IntLit(id), al.Off, al.Len)
		if r == nil {
			r = t
		} else {
			r = Ite(al.C, t, r)
		}
	}
	return r
}

func (ex *Exec) nlvEqTerm(a, b *SliceVal) *Term {
	ka, kb := sliceKey(a), sliceKey(b)
	if ka == kb {
		return TTrue
	}
	return App("nlvEq", SBool, ka, kb)
}

func checkC09(w *World, c *Check) {
	c.Trusted = append(c.Trusted,
		"induction on item depth (acyclic values): at nested positions ItemsEqual is the relation itemsEq, reflexive on sub-items; IRI.Equals is the relation iriEq, reflexive (C14); NaturalLanguageValues.Equals is the relation nlvEq, reflexive (proved in C19); ItemCollection.Equals on the member list of an ordered collection is the relation icEq, reflexive on one and the same list (its nested search loop is not verified here)",
		"strings.EqualFold is equality of a folding normal form; time.Time.Equal compares the instant",
		"C08 views; type lists hold their initial values; go/types + go/ssa; SMT solvers' unsat answers")
	c.Assume = append(c.Assume,
		"reflexivity is claimed per dynamic type for the struct types except OrderedCollection and OrderedCollectionPage (not decided: their Equals goes through a Collection view of a copy of the receiver, beyond the heap model's precision) in pointer and value form whose type string is a vocabulary name of that struct (or empty) and for IRIs; item lists (ItemCollection/IRIs as top-level items) are not claimed here",
		"identity sensitivity: 'ids differ' = not iriEq with and without scheme check; 'a property differs' = both sides have it set and the property's own comparison (itemsEq / nlvEq / instant / number) says different, all other properties identical",
		"nil rules are the ItemsEqual rows of the C20 matrix, restated here")

	names := map[string][]string{}
	for _, e := range vocab {
		names[e.GoType] = append(names[e.GoType], e.Name)
	}
	// ---- nil rules (same obligations as the ItemsEqual rows of C20) ----
	for pi := 0; pi < 2; pi++ {
		for _, k := range w.nilKinds() {
			pi, k := pi, k
			grp := fmt.Sprintf("C09/nil/arg%d=%s", pi, k.name)
			guard(c, grp, func() {
				ex := w.NewExec()
				st := newState()
				o := Var("other", SItem)
				var tags []types.Type
				tags = append(tags, ex.itemTypes()...)
				ex.assume(Or(Eq(tagOfItem(o), TagNil), tagIn(o, tags)))
				args := []Value{nilItemOf(k), opaqueItem(o)}
				if pi == 1 {
					args = []Value{opaqueItem(o), nilItemOf(k)}
				}
				res := ex.Call(st, w.Func("ItemsEqual"), args, nil).(*Term)
				onil := ex.Call(newStateFrom(st), w.Func("IsNil"), []Value{opaqueItem(o)}, nil).(*Term)
				c.Add(&Obligation{Name: grp + "/equal-iff-other-nil", Group: grp, Common: ex.assumes, Hyps: []*Term{ex.NoPanic()}, Goal: Iff(res, onil), Pos: "ItemsEqual", Funcs: []string{"ItemsEqual", "IsNil"}})
				for i, p := range ex.panics {
					c.Add(&Obligation{Name: fmt.Sprintf("%s/nopanic/%s#%d", grp, p.Kind, i), Group: grp, Common: ex.assumes, Goal: Not(p.C), Pos: p.Pos, Funcs: []string{"ItemsEqual"}})
				}
			})
		}
	}
	// ---- the type predicates ItemsEqual dispatches on, per dynamic type (pointer and value form) ----
	guard(c, "C09/predicates", func() {
		ex0 := w.NewExec()
		for _, X := range ex0.itemTypes() {
			X := X
			ex := w.NewExec()
			st := newState()
			var iv *IfaceVal
			if classify(X) == KPtr {
				if _, ok := X.Underlying().(*types.Pointer).Elem().Underlying().(*types.Struct); !ok {
					continue
				}
				iv, _, _ = ex.symItemOfType(X, "x")
			} else {
				iv = &IfaceVal{Alts: []IfaceAlt{{C: TTrue, T: X, V: ex.symValue(X, varNamer("x"), false)}}}
			}
			base := strings.TrimPrefix(typeName(X), "*")
			isStruct := false
			for _, n := range objectStructNames {
				if n == base {
					isStruct = true
				}
			}
			want := map[string]bool{"IsObject": isStruct, "IsLink": base == "Link", "IsIRI": base == "IRI", "IsItemCollection": base == "ItemCollection" || base == "IRIs", "IsIRIs": base == "IRIs"}
			for fn, wv := range want {
				r := ex.Call(st, w.Func(fn), []Value{iv}, nil).(*Term)
				goal := r
				if !wv {
					goal = Not(r)
				}
				c.Add(&Obligation{Name: fmt.Sprintf("C09/predicates/%s/dyn=%s", fn, typeName(X)), Group: "C09/predicates/" + typeName(X), Common: append([]*Term{ex.NoPanic()}, ex.assumes...), Goal: goal, Pos: fn, Funcs: []string{fn},
					Replay: c09ReflReplay(base, map[bool]string{true: "*", false: ""}[strings.HasPrefix(typeName(X), "*")])})
			}
		}
	})
	// ---- reflexivity per dynamic type ----
	for _, n := range allStructNames {
		for _, form := range []string{"*", ""} {
			n, form := n, form
			if c.Tier != "thorough" && (form == "" || strings.Contains(n, "Collection")) {
				c.Deferred = append(c.Deferred, "C09/refl/dyn="+form+n)
				continue // value forms and the collection structs take minutes to generate: thorough tier
			}
			if strings.HasPrefix(n, "OrderedCollection") {
				// not decided: OrderedCollection.Equals compares through a Collection view of a copy of its receiver
				// (wo.Equals(o) inside OnCollection); the heap model loses the identity of the member list on that
				// path and the solver answers sat without a reproducible input - a limit of the machinery, not a finding
				continue
			}
			grp := "C09/refl/dyn=" + form + n
			guard(c, grp, func() {
				ex := w.NewExec()
				installEqContracts(ex)
				st := newState()
				T := w.Type(form + n)
				iv, _, sv := ex.symItemOfType(T, "x")
				typ := sv.F[fieldIndex(w.Type(n), "Type")].(*Term)
				res := ex.Call(st, w.Func("ItemsEqual"), []Value{iv, iv}, nil).(*Term)
				dom := strIn(typ, append([]string{""}, names[n]...))
				c.Add(&Obligation{Name: grp, Group: grp, Common: append([]*Term{dom}, ex.assumes...), Hyps: []*Term{ex.NoPanic()}, Goal: res, Pos: "ItemsEqual", Funcs: []string{"ItemsEqual", "(" + n + ").Equals"},
					Replay: c09ReflReplay(n, form)})
				for i, p := range ex.panics {
					c.Add(&Obligation{Name: fmt.Sprintf("%s/nopanic/%s#%d", grp, p.Kind, i), Group: grp, Common: append([]*Term{dom}, ex.assumes...), Goal: Not(p.C), Pos: p.Pos, Funcs: []string{"ItemsEqual"}})
				}
			})
		}
	}
	guard(c, "C09/refl/dyn=IRI", func() {
		ex := w.NewExec()
		installEqContracts(ex)
		st := newState()
		iri := Var("iri", SStr)
		iv := &IfaceVal{Alts: []IfaceAlt{{C: TTrue, T: w.Type("IRI"), V: iri}}}
		res := ex.Call(st, w.Func("ItemsEqual"), []Value{iv, iv}, nil).(*Term)
		c.Add(&Obligation{Name: "C09/refl/dyn=IRI", Common: ex.assumes, Hyps: []*Term{ex.NoPanic()}, Goal: res, Pos: "ItemsEqual", Funcs: []string{"ItemsEqual"}})
	})
	// ---- identity sensitivity ----
	// one execution per struct and argument order on two fully symbolic values; per property F the
	// hypothesis says: every other property compares equal (by that property's own comparison), F is set
	// on both sides and F's comparison says different.
	distinctStructs := []string{"Object", "Activity"}
	if c.Tier == "thorough" {
		distinctStructs = []string{"Object", "Actor", "Activity", "IntransitiveActivity", "Question", "Place", "Collection"} // OrderedCollectionPage: VC generation alone exceeds 10 minutes
	}
	for _, n := range distinctStructs {
		n := n
		grp := "C09/distinct/dyn=*" + n
		guard(c, grp, func() {
			S := w.Type(n)
			stT := S.Underlying().(*types.Struct)
			ex := w.NewExec()
			installEqContracts(ex)
			st := newState()
			T := w.Type("*" + n)
			ia, _, sa := ex.symItemOfType(T, "a")
			ib, _, sb := ex.symItemOfType(T, "b")
			r1 := ex.Call(st, w.Func("ItemsEqual"), []Value{ia, ib}, nil).(*Term)
			r2 := ex.Call(st, w.Func("ItemsEqual"), []Value{ib, ia}, nil).(*Term)
			domNames := append([]string{""}, names[n]...)
			if n == "Activity" {
				// the activity-specific comparison is selected by a concrete activity type name
				domNames = vocabNames(func(e vocabEntry) bool { return e.GoType == "Activity" && !e.Generic })
			}
			dom := And(strIn(sa.F[fieldIndex(S, "Type")].(*Term), domNames), strIn(sb.F[fieldIndex(S, "Type")].(*Term), domNames))
			realNil := func(iv *IfaceVal) *Term {
				np := len(ex.panics)
				r := ex.Call(newStateFrom(st), w.Func("IsNil"), []Value{iv}, nil).(*Term)
				ex.panics = ex.panics[:np]
				return r
			}
			same := make([]*Term, stT.NumFields())
			differs := make([]*Term, stT.NumFields())
			for k := 0; k < stT.NumFields(); k++ {
				f := stT.Field(k).Name()
				switch x := sa.F[k].(type) {
				case *Term:
					y := sb.F[k].(*Term)
					same[k] = Eq(x, y)
					switch {
					case f == "ID":
						differs[k] = And(Not(App("iriEq", SBool, x, y, TTrue)), Not(App("iriEq", SBool, y, x, TTrue)), Not(App("iriEq", SBool, x, y, TFalse)), Not(App("iriEq", SBool, y, x, TFalse)), Neq(x, y))
					case f == "Type":
						differs[k] = Not(EqFold(x, y))
					case x.S == STime:
						same[k] = Eq(Inst(x), Inst(y))
						differs[k] = And(Neq(Inst(x), Inst(y)), Neq(Inst(x), IntLit(0)), Neq(Inst(y), IntLit(0)))
					case x.S == SInt:
						differs[k] = And(Neq(x, y), Neq(x, IntLit(0)), Neq(y, IntLit(0)))
					case x.S == SBool:
						differs[k] = Neq(x, y)
					default:
						differs[k] = And(Neq(x, y), ex.isSet(x), ex.isSet(y))
					}
				case *IfaceVal:
					y := sb.F[k].(*IfaceVal)
					ta, tb := ex.abstractItem(x), ex.abstractItem(y)
					eq := func(p, q *Term) *Term { return App("itemsEq", SBool, p, q) }
					nilA, nilB := Eq(tagOfItem(ta), TagNil), Eq(tagOfItem(tb), TagNil)
					rnA, rnB := realNil(x), realNil(y)
					same[k] = And(Iff(nilA, nilB), Iff(rnA, rnB), eq(ta, tb), eq(tb, ta),
						App("iriEq", SBool, mGetLink(tb), mGetLink(ta), TFalse), App("iriEq", SBool, mGetLink(ta), mGetLink(tb), TFalse))
					differs[k] = And(Not(eq(ta, tb)), Not(eq(tb, ta)), Not(nilA), Not(nilB), Not(rnA), Not(rnB))
					if f == "URL" {
						differs[k] = And(differs[k], Not(App("iriEq", SBool, mGetLink(tb), mGetLink(ta), TFalse)), Not(App("iriEq", SBool, mGetLink(ta), mGetLink(tb), TFalse)))
					}
				case *SliceVal:
					y := sb.F[k].(*SliceVal)
					if typeName(stT.Field(k).Type()) == "NaturalLanguageValues" {
						same[k] = And(ex.nlvEqTerm(x, y), ex.nlvEqTerm(y, x), Eq(sliceLen(x), sliceLen(y)))
						differs[k] = And(Not(ex.nlvEqTerm(x, y)), Not(ex.nlvEqTerm(y, x)), Gt(sliceLen(x), IntLit(0)), Gt(sliceLen(y), IntLit(0)))
					} else {
						ta := ex.abstractItem(&IfaceVal{Alts: []IfaceAlt{{C: TTrue, T: stT.Field(k).Type(), V: x}}})
						tb := ex.abstractItem(&IfaceVal{Alts: []IfaceAlt{{C: TTrue, T: stT.Field(k).Type(), V: y}}})
						same[k] = And(App("itemsEq", SBool, ta, tb), App("itemsEq", SBool, tb, ta), Iff(ex.isSet(x), ex.isSet(y)))
						differs[k] = And(Not(App("itemsEq", SBool, ta, tb)), Not(App("itemsEq", SBool, tb, ta)), ex.isSet(x), ex.isSet(y))
					}
				}
			}
			common := append([]*Term{dom, ex.NoPanic()}, ex.assumes...)
			for k := 0; k < stT.NumFields(); k++ {
				f := stT.Field(k).Name()
				if differs[k] == nil || f == "MediaType" || f == "Source" {
					continue
				}
				inCore := fieldIndex(w.Type("Object"), f) >= 0
				actProp := n == "Activity" && strings.Contains(" Actor Object Target Result Origin Instrument ", " "+f+" ")
				if !inCore && !actProp {
					continue
				}
				hy := []*Term{differs[k]}
				for g := 0; g < stT.NumFields(); g++ {
					if g != k && same[g] != nil {
						hy = append(hy, same[g])
					}
				}
				c.Add(&Obligation{Name: fmt.Sprintf("%s/field=%s", grp, f), Group: grp, Common: common, Hyps: hy, Goal: And(Not(r1), Not(r2)), Pos: "ItemsEqual",
					Funcs: []string{"ItemsEqual", "(" + n + ").Equals"}, Replay: c09DistinctReplay(n, f, stT.Field(k).Type())})
			}
			c.Add(&Obligation{Name: grp + "/cover", Group: grp, ExpectSat: true, Common: common, Goal: r1})
		})
	}
}

func c09ReflReplay(n, form string) func(map[string]string) string {
	return func(map[string]string) string {
		amp := "&"
		if form == "" {
			amp = ""
		}
		extra := ""
		if n != "Link" {
			extra = `	x.Name = NaturalLanguageValues{{Ref: "en", Value: Content("a")}, {Ref: "fr", Value: Content("b")}}
	x.Tag = ItemCollection{IRI("https://example.com/verif/t")}
	x.AttributedTo = IRI("https://example.com/verif/by")
`
		}
		return fmt.Sprintf(`package activitypub

import "testing"

func TestVerifReplay(t *testing.T) {
	x := %s%s{ID: "https://example.com/verif/x"}
%s	if !ItemsEqual(x, x) {
		t.Fatalf("ItemsEqual(x, x) is false for %%T %%v", x, x)
	}
}
`, amp, n, extra)
	}
}

func c09DistinctReplay(n, field string, ft types.Type) func(map[string]string) string {
	return func(map[string]string) string {
		a, b, _, ok := sampleExpr(ft)
		if field == "ID" {
			a, b, ok = `ID("https://example.com/verif/1")`, `ID("https://example.com/verif/2?x=1")`, true
		}
		if field == "Type" {
			return ""
		}
		if !ok {
			return ""
		}
		return fmt.Sprintf(`package activitypub

import (
	"testing"
	"time"
)

var _ = time.Now

func TestVerifReplay(t *testing.T) {
	x := &%[1]s{ID: "https://example.com/verif/1", Type: %[5]s}
	y := &%[1]s{ID: "https://example.com/verif/1", Type: %[5]s}
	x.%[2]s = %[3]s
	y.%[2]s = %[4]s
	if ItemsEqual(x, y) || ItemsEqual(y, x) {
		t.Fatalf("two %[1]s values that differ in %[2]s (%%v / %%v) compare equal", x.%[2]s, y.%[2]s)
	}
}
`, n, field, a, b, map[string]string{"Activity": "CreateType", "Object": "NoteType", "Actor": "PersonType"}[n])
	}
}
