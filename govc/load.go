package main

import (
	"fmt"
	"go/types"
	"os"

	"golang.org/x/tools/go/packages"
	"golang.org/x/tools/go/ssa"
	"golang.org/x/tools/go/ssa/ssautil"
)

type World struct {
	Prog  *ssa.Program
	Pkg   *ssa.Package
	TPkg  *types.Package
	PPkg  *packages.Package
	Sizes types.Sizes
}

var repoDir = "/repo"

func LoadWorld() (*World, error) {
	if d := os.Getenv("GOVC_REPO"); d != "" {
		repoDir = d
	}
	cfg := &packages.Config{
		Mode:       packages.LoadAllSyntax,
		Dir:        repoDir,
		BuildFlags: []string{"-tags=verif", "-mod=mod"},
		Env:        append(os.Environ(), "GOFLAGS=-mod=mod", "GOPROXY=off", "GOSUMDB=off", "GOTOOLCHAIN=local"),
	}
	pkgs, err := packages.Load(cfg, ".")
	if err != nil {
		return nil, err
	}
	if len(pkgs) != 1 {
		return nil, fmt.Errorf("expected 1 package, got %d", len(pkgs))
	}
	if len(pkgs[0].Errors) > 0 {
		return nil, fmt.Errorf("package errors: %v", pkgs[0].Errors)
	}
	prog, spkgs := ssautil.AllPackages(pkgs, ssa.InstantiateGenerics)
	prog.Build()
	w := &World{Prog: prog, Pkg: spkgs[0], TPkg: pkgs[0].Types, PPkg: pkgs[0], Sizes: types.SizesFor("gc", "amd64")}
	return w, nil
}

// NewExec creates an executor whose globals hold the values the package initialiser gives them.
func (w *World) NewExec() *Exec {
	ex := NewExec(w.Prog, w.Pkg)
	ex.world = w
	ex.runInit()
	ex.installAssumed()
	return ex
}

var initHeapCache map[*Obj]Value
var initGlobals map[*ssa.Global]*Obj

// runInit symbolically executes the package initialiser once; later executors share the result.
func (ex *Exec) runInit() {
	if initHeapCache != nil {
		ex.initHeap = initHeapCache
		ex.globals = initGlobals
		ex.objSeq = 1 << 20
		return
	}
	initFn := ex.pkg.Func("init")
	st := &State{pc: TTrue, env: map[ssa.Value]Value{}, heap: map[*Obj]Value{}}
	// calls to other packages' init functions are no-ops
	ex.hooks["init:skip"] = nil
	func() {
		defer func() {
			if r := recover(); r != nil {
				if u, ok := r.(*Unsupported); ok {
					fmt.Fprintln(os.Stderr, "govc: package init outside subset:", u.Msg)
					return
				}
				panic(r)
			}
		}()
		ex.inInit = true
		ex.Call(st, initFn, nil, nil)
		ex.inInit = false
	}()
	ex.initHeap = st.heap
	initHeapCache = st.heap
	initGlobals = ex.globals
	ex.panics = nil
	ex.writes = nil
	ex.assumes = nil
	ex.objSeq = 1 << 20
}
