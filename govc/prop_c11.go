package main

import (
	"fmt"
	"go/types"

	"golang.org/x/tools/go/ssa"
)

func init() { drivers["C11"] = checkC11 }

var c11Walked = []string{"Audience", "Attachment", "Icon", "Image", "Context", "Generator", "AttributedTo", "Preview", "Tag"}

// installCleanRecContract: CleanRecipients at nested positions is used by contract (induction
// hypothesis): the call is recorded and returns cleanRec(it).
func installCleanRecContract(ex *Exec) {
	ex.installRecorder("CleanRecipients", func(ex *Exec, st *State, fn *ssa.Function, args []Value) Value {
		x := ex.abstractItem(args[0].(*IfaceVal))
		return opaqueItem(App("cleanRec", SItem, x))
	})
}

func checkC11(w *World, c *Check) {
	c.Trusted = append(c.Trusted,
		"induction on the depth of the (acyclic) value: at nested positions CleanRecipients(it) is used by its contract 'returns cleanRec(it), the item with no bto/bcc on any object reachable from it along the walked properties, and changes nothing else'; each Clean method and CleanRecipients itself are verified against their bodies under that hypothesis",
		"serialisation: the JSON writers emit no bto/bcc member for a list of length 0 (JSONWriteItemCollectionProp; property C01/C02)",
		"C08 views; IsNil as verified in C20; go/types + go/ssa; SMT solvers' unsat answers")
	c.Assume = append(c.Assume,
		"values are acyclic; 'embedded by pointer' = the dynamic type is a pointer to a vocabulary struct (value-form embedded objects are copies and outside the statement)",
		"'for an activity' = the transitive Activity type (IntransitiveActivity and Question are held to the object-core walk)",
		"list entries are compared up to what CleanRecipients returns for them (a nil-like entry becomes the untyped nil, which serialises identically)")
	cs, err := LoadContracts()
	if err != nil {
		c.Add(&Obligation{Name: "C11/contracts", EngineErr: "cannot read contracts: " + err.Error()})
		return
	}
	hasRec := w.TPkg.Scope().Lookup("HasRecipients").Type().Underlying().(*types.Interface)
	// every pointer to an object struct offers Clean (static)
	for _, n := range objectStructNames {
		c.Add(&Obligation{Name: "C11/HasRecipients/*" + n, Goal: BoolLit(types.Implements(w.Type("*"+n), hasRec)), Pos: n, Funcs: []string{"(*" + n + ").Clean"}})
	}
	// --- each Clean method: self, walk, frame ---
	for _, n := range objectStructNames {
		n := n
		grp := "C11/(*" + n + ").Clean"
		guard(c, grp, func() {
			ex := w.NewExec()
			installCleanRecContract(ex)
			st := newState()
			T := w.Type("*" + n)
			iv, obj, sv := ex.symItemOfType(T, "x")
			ptr := iv.Alts[0].V
			fn := w.Method("*"+n, "Clean")
			ex.Call(st, fn, []Value{ptr}, nil)
			final := ex.heapGet(st, obj).(*StructVal)
			S := w.Type(n)
			common := append([]*Term{ex.NoPanic()}, ex.assumes...)
			pos := ex.pos(fn.Pos())
			fns := []string{"(*" + n + ").Clean", "(*Object).Clean"}
			lenOf := func(v Value) *Term { return sliceLen(v.(*SliceVal)) }
			rp := c11Replay(n)
			c.Add(&Obligation{Name: grp + "/self", Group: grp, Common: common,
				Goal: And(Eq(lenOf(final.F[fieldIndex(S, "Bto")]), IntLit(0)), Eq(lenOf(final.F[fieldIndex(S, "BCC")]), IntLit(0))), Pos: pos, Funcs: fns, Replay: rp})
			walked := append([]string{}, c11Walked...)
			if n == "Activity" {
				walked = append(walked, "Object", "Actor", "Target")
			}
			for _, p := range walked {
				fv := sv.F[fieldIndex(S, p)]
				var called []*Term
				for _, rec := range ex.calls {
					if rec.Name != "CleanRecipients" {
						continue
					}
					arg := rec.Args[0].(*IfaceVal)
					var same *Term
					switch x := fv.(type) {
					case *IfaceVal:
						same = Eq(ex.abstractItem(arg), ex.abstractItem(x))
					case *SliceVal:
						_, pl := ex.assertTo(ex.normIface(arg), w.Type("ItemCollection"))
						if pl == nil {
							same = TFalse
						} else {
							same = ex.sliceIdentical(pl.(*SliceVal), x)
						}
					}
					called = append(called, And(rec.C, same))
				}
				c.Add(&Obligation{Name: fmt.Sprintf("%s/walk/prop=%s", grp, p), Group: grp, Common: common, Goal: Or(called...), Pos: pos, Funcs: fns, Replay: rp})
			}
			stT := S.Underlying().(*types.Struct)
			for k := 0; k < stT.NumFields(); k++ {
				fname := stT.Field(k).Name()
				if fname == "Bto" || fname == "BCC" {
					continue
				}
				c.Add(&Obligation{Name: fmt.Sprintf("%s/frame/field=%s", grp, fname), Group: grp, Common: common, Goal: ex.valueEq(final.F[k], sv.F[k]), Pos: pos, Funcs: fns, Replay: rp})
			}
			for i, p := range ex.panics {
				c.Add(&Obligation{Name: fmt.Sprintf("%s/nopanic/%s#%d", grp, p.Kind, i), Group: grp + "/nopanic", Common: ex.assumes, Goal: Not(p.C), Pos: p.Pos, Funcs: fns})
			}
		})
	}
	// --- CleanRecipients body, per dynamic type ---
	ex0 := w.NewExec()
	for _, X := range append([]types.Type{nil}, ex0.itemTypes()...) {
		X := X
		name := "nil"
		if X != nil {
			name = typeName(X)
		}
		grp := "C11/CleanRecipients/dyn=" + name
		guard(c, grp, func() {
			ex := w.NewExec()
			st := newState()
			// record which Clean method runs
			for _, n := range append(append([]string{}, objectStructNames...), "ItemCollection") {
				n := n
				recv := "(*" + n + ").Clean"
				if n == "ItemCollection" {
					recv = "(ItemCollection).Clean"
				}
				ex.installRecorder(recv, func(ex *Exec, st *State, fn *ssa.Function, args []Value) Value { return nil })
			}
			var iv *IfaceVal
			var ptr *PtrVal
			switch {
			case X == nil:
				iv = &IfaceVal{Alts: []IfaceAlt{{C: TTrue}}}
			case classify(X) == KPtr:
				if _, ok := X.Underlying().(*types.Pointer).Elem().Underlying().(*types.Struct); !ok {
					return
				}
				var obj *Obj
				iv, obj, _ = ex.symItemOfType(X, "x")
				ptr = &PtrVal{Alts: []PtrAlt{{C: TTrue, O: obj}}}
			default:
				iv = &IfaceVal{Alts: []IfaceAlt{{C: TTrue, T: X, V: ex.symValue(X, varNamer("x"), false)}}}
			}
			fn := w.Func("CleanRecipients")
			res := ex.Call(st, fn, []Value{iv}, nil).(*IfaceVal)
			common := append([]*Term{ex.NoPanic()}, ex.assumes...)
			isNil := ex.Call(newStateFrom(st), w.Func("IsNil"), []Value{iv}, nil).(*Term)
			nilIface := &IfaceVal{Alts: []IfaceAlt{{C: TTrue}}}
			c.Add(&Obligation{Name: grp + "/result", Group: grp, Common: common,
				Goal: And(Implies(isNil, ex.ifaceEq(res, nilIface)), Implies(Not(isNil), Eq(ex.abstractItem(res), ex.abstractItem(iv)))), Pos: ex.pos(fn.Pos()), Funcs: []string{"CleanRecipients"}})
			if X == nil {
				return
			}
			cleans := types.Implements(X, hasRec)
			var called []*Term
			for _, rec := range ex.calls {
				if ptr != nil {
					if q, ok := rec.Args[0].(*PtrVal); ok {
						called = append(called, And(rec.C, ex.ptrEq(q, ptr), BoolLit(rec.Name == "("+typeName(X)+").Clean")))
					}
				} else {
					called = append(called, rec.C)
				}
			}
			goal := Implies(Not(isNil), Or(called...))
			if !cleans {
				goal = Not(Or(called...))
			}
			c.Add(&Obligation{Name: grp + "/delegates", Group: grp, Common: common, Goal: goal, Pos: ex.pos(fn.Pos()), Funcs: []string{"CleanRecipients"}, Replay: c11Replay("Object")})
		})
	}
	// --- ItemCollection.Clean: every member is replaced by what CleanRecipients returns for it ---
	verifyContract(w, c, cs, "C11", "(ItemCollection).Clean", nil, nil, installCleanRecContract)
	// the members list type must delegate too (static): ItemCollection offers Clean
	c.Add(&Obligation{Name: "C11/HasRecipients/ItemCollection", Goal: BoolLit(types.Implements(w.Type("ItemCollection"), hasRec)), Pos: "ItemCollection"})
}

// c11Replay: a value of the type with bto/bcc on itself and on pointer-embedded objects in every walked
// property (single and list form) is cleaned with the real code and serialised.
func c11Replay(n string) func(map[string]string) string {
	return func(map[string]string) string {
		extra := ""
		if n == "Activity" {
			extra = "\tif variant == 0 {\n\t\tx.Object = mk(\"o\")\n\t}\n\tx.Actor = mk(\"a\")\n\tx.Target = mk(\"t\")\n"
		}
		return fmt.Sprintf(`package activitypub

import (
	"bytes"
	"testing"
)

func TestVerifReplay(t *testing.T) {
	secret := IRI("https://example.com/verif/secret")
	mk := func(id string) *Object {
		return &Object{ID: IRI("https://example.com/verif/" + id), Type: NoteType, Bto: ItemCollection{secret}, BCC: ItemCollection{secret}}
	}
	for variant := 0; variant < 2; variant++ {
	x := &%s{ID: "https://example.com/verif/x"}
	x.Bto, x.BCC = ItemCollection{secret}, ItemCollection{secret}
	x.Audience = ItemCollection{mk("au1"), mk("au2")}
	x.Attachment = mk("at")
	x.Icon = mk("ic")
	x.Image = mk("im")
	x.Context = mk("cx")
	x.Generator = mk("ge")
	x.AttributedTo = ItemCollection{mk("ab1"), mk("ab2")}
	x.Preview = mk("pr")
	x.Tag = ItemCollection{mk("tg1"), mk("tg2")}
%s	x.Clean()
	data, err := x.MarshalJSON()
	if err != nil {
		t.Fatal(err)
	}
	if bytes.Contains(data, []byte("secret")) || bytes.Contains(data, []byte("\"bto\"")) || bytes.Contains(data, []byte("\"bcc\"")) {
		t.Fatalf("private recipients survive Clean(): %%s", data)
	}
	}
}
`, n, extra)
	}
}
