package main

// The ActivityStreams 2.0 / ActivityPub vocabulary, written down once from the W3C Activity
// Vocabulary recommendation (§2 core types, §3.1 activity types, §3.2 actor types, §3.3 object and
// link types). It is the oracle for the family/Go-type obligations and is deliberately NOT derived
// from the package's own ObjectTypes/ActorTypes/... lists, which are checked against it.

type vocabEntry struct {
	Name    string
	Family  string // object | link | actor | activity | intransitive | collection
	GoType  string // struct the library dedicates to it
	Generic bool   // generic (abstract) name of the family
}

var vocab = []vocabEntry{
	{"Object", "object", "Object", true},
	{"Article", "object", "Object", false}, {"Audio", "object", "Object", false}, {"Document", "object", "Object", false},
	{"Event", "object", "Object", false}, {"Image", "object", "Object", false}, {"Note", "object", "Object", false},
	{"Page", "object", "Object", false}, {"Video", "object", "Object", false},
	{"Place", "object", "Place", false}, {"Profile", "object", "Profile", false},
	{"Relationship", "object", "Relationship", false}, {"Tombstone", "object", "Tombstone", false},
	{"Link", "link", "Link", false}, {"Mention", "link", "Link", false},
	{"Actor", "actor", "Actor", true},
	{"Application", "actor", "Actor", false}, {"Group", "actor", "Actor", false}, {"Organization", "actor", "Actor", false},
	{"Person", "actor", "Actor", false}, {"Service", "actor", "Actor", false},
	{"Activity", "activity", "Activity", true},
	{"Accept", "activity", "Activity", false}, {"Add", "activity", "Activity", false}, {"Announce", "activity", "Activity", false},
	{"Block", "activity", "Activity", false}, {"Create", "activity", "Activity", false}, {"Delete", "activity", "Activity", false},
	{"Dislike", "activity", "Activity", false}, {"Flag", "activity", "Activity", false}, {"Follow", "activity", "Activity", false},
	{"Ignore", "activity", "Activity", false}, {"Invite", "activity", "Activity", false}, {"Join", "activity", "Activity", false},
	{"Leave", "activity", "Activity", false}, {"Like", "activity", "Activity", false}, {"Listen", "activity", "Activity", false},
	{"Move", "activity", "Activity", false}, {"Offer", "activity", "Activity", false}, {"Reject", "activity", "Activity", false},
	{"Read", "activity", "Activity", false}, {"Remove", "activity", "Activity", false},
	{"TentativeReject", "activity", "Activity", false}, {"TentativeAccept", "activity", "Activity", false},
	{"Undo", "activity", "Activity", false}, {"Update", "activity", "Activity", false}, {"View", "activity", "Activity", false},
	{"IntransitiveActivity", "intransitive", "IntransitiveActivity", true},
	{"Arrive", "intransitive", "IntransitiveActivity", false}, {"Travel", "intransitive", "IntransitiveActivity", false},
	{"Question", "intransitive", "Question", false},
	{"Collection", "collection", "Collection", false}, {"OrderedCollection", "collection", "OrderedCollection", false},
	{"CollectionPage", "collection", "CollectionPage", false}, {"OrderedCollectionPage", "collection", "OrderedCollectionPage", false},
}

func vocabNames(pred func(e vocabEntry) bool) []string {
	var r []string
	for _, e := range vocab {
		if pred(e) {
			r = append(r, e.Name)
		}
	}
	return r
}

// strIn: s equals one of the literals.
func strIn(s *Term, names []string) *Term {
	var cs []*Term
	for _, n := range names {
		cs = append(cs, Eq(s, StrLit(n)))
	}
	return Or(cs...)
}
