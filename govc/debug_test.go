package main

import (
	"fmt"
	"testing"
)

func TestDebugContains(t *testing.T) {
	w, err := LoadWorld()
	if err != nil {
		t.Fatal(err)
	}
	ex := w.NewExec()
	st := newState()
	g := w.Pkg.Var("ObjectTypes")
	p := &PtrVal{Alts: []PtrAlt{{C: TTrue, O: ex.globalObj(g)}}}
	v := ex.load(st, p, g.Type(), 0)
	fmt.Printf("ObjectTypes = %#v\n", v)
	if sv, ok := v.(*SliceVal); ok {
		for _, al := range sv.Alts {
			fmt.Println("alt", al.C, al.O, al.Off, al.Len)
			if al.O != nil {
				fmt.Printf("content %#v\n", ex.heapGet(st, al.O))
			}
		}
	}
	typ := Var("typ", SStr)
	r := ex.Call(st, w.Method("ActivityVocabularyTypes", "Contains"), []Value{v, typ}, nil)
	fmt.Println("Contains(typ) =", r)
	fmt.Println("panics", len(ex.panics), "notes", ex.notes, "bounded", ex.bounded)
}
