package main

import (
	"fmt"
	"go/types"
	"strings"

	"golang.org/x/tools/go/ssa"
)

func init() { drivers["C18"] = checkC18 }

// the merged properties listed in the quantifier (Go field names)
var c18Merged = map[string]bool{}

func init() {
	for _, f := range strings.Fields(`Name Summary Content MediaType Attachment AttributedTo Audience Context Generator Icon Image
		InReplyTo Location Preview Replies Tag URL To Bto CC BCC StartTime EndTime
		Inbox Outbox Following Followers Liked PreferredUsername First Last Items OrderedItems PartOf Next Prev`) {
		c18Merged[f] = true
	}
}

// symbolic pointer-to-struct item with concrete dynamic type (non-nil pointer) or struct value.
func (ex *Exec) symItemOfType(t types.Type, prefix string) (*IfaceVal, *Obj, *StructVal) {
	if p, ok := t.Underlying().(*types.Pointer); ok {
		o := ex.newObj("in:"+prefix, OCell, p.Elem())
		o.owner = 0
		sv := ex.symValue(p.Elem(), varNamer(prefix), false).(*StructVal)
		o.init = func() Value { return sv }
		return &IfaceVal{Alts: []IfaceAlt{{C: TTrue, T: t, V: &PtrVal{Alts: []PtrAlt{{C: TTrue, O: o}}}}}}, o, sv
	}
	sv := ex.symValue(t, varNamer(prefix), false).(*StructVal)
	return &IfaceVal{Alts: []IfaceAlt{{C: TTrue, T: t, V: sv}}}, nil, sv
}

// isSet: the property-level notion of "set" for a field value, by the field's Go type:
// non-nil for items, lists, language values, pointers and byte strings; non-zero/non-empty for scalars.
func (ex *Exec) isSet(v Value) *Term {
	switch x := v.(type) {
	case *Term:
		switch x.S {
		case SStr:
			return Neq(x, StrLit(""))
		case SBytes:
			return Neq(x, BytesNil)
		case SInt:
			return Neq(x, IntLit(0))
		case SReal:
			return Neq(x, mk("real", "0.0", SReal))
		case SBool:
			return x
		case STime:
			return Neq(Inst(x), IntLit(0))
		}
		return TTrue
	case *IfaceVal:
		return Not(ex.ifaceEq(x, &IfaceVal{Alts: []IfaceAlt{{C: TTrue}}}))
	case *SliceVal:
		var cs []*Term
		for _, al := range x.Alts {
			if al.O != nil {
				cs = append(cs, al.C)
			}
		}
		return Or(cs...)
	case *PtrVal:
		var cs []*Term
		for _, al := range x.Alts {
			if al.O != nil {
				cs = append(cs, al.C)
			}
		}
		return Or(cs...)
	case *StructVal:
		var cs []*Term
		for _, f := range x.F {
			cs = append(cs, ex.isSet(f))
		}
		return Or(cs...)
	}
	return TTrue
}

func (ex *Exec) installIRIEqualsHook() {
	ex.hooks["(IRI).Equals"] = func(ex *Exec, st *State, fn *ssa.Function, args []Value) (Value, bool) {
		return App("iriEq", SBool, args[0].(*Term), args[1].(*Term), args[2].(*Term)), true
	}
}

func checkC18(w *World, c *Check) {
	c.Trusted = append(c.Trusted,
		"IRI.Equals is abstracted as an uninterpreted relation iriEq(a,b,checkScheme) (its own laws are property C14)",
		"strings.EqualFold is equality of a case-folding normal form (equivalence containing equality)",
		"time.Time.IsZero <=> the instant is the zero instant",
		"C08 layout obligations justify the *T-as-*Object views used by copy.go",
		"fmt.Errorf returns a non-nil error",
		"go/types + go/ssa (x/tools v0.29.0) faithfully represent the compiled code; SMT solvers' unsat answers")
	c.Assume = append(c.Assume,
		"domain: `to` is a non-nil pointer to Object, Place, Profile, Relationship, Tombstone, Actor or one of the four collection structs whose type string is in that struct's vocabulary family (or empty for Object); `from` is the same struct in pointer or value form with arbitrary contents; to and from are different values",
		"'unset' is read as nil for items/lists/language values/pointers, zero for numbers and instants, empty for strings; an empty non-nil list counts as set",
		"typed-nil pointers are the subject of C20, not of the nil-rejection clause checked here (untyped nil)")

	type fam struct {
		goType string
		names  []string
	}
	objNames := vocabNames(func(e vocabEntry) bool { return e.Family == "object" && !e.Generic })
	fams := []fam{
		{"Object", append([]string{""}, vocabNames(func(e vocabEntry) bool { return e.Family == "object" && !e.Generic && e.GoType == "Object" })...)},
		{"Place", []string{"Place"}}, {"Profile", []string{"Profile"}}, {"Relationship", []string{"Relationship"}}, {"Tombstone", []string{"Tombstone"}},
		{"Actor", vocabNames(func(e vocabEntry) bool { return e.Family == "actor" && !e.Generic })},
		{"Collection", []string{"Collection"}}, {"OrderedCollection", []string{"OrderedCollection"}},
		{"CollectionPage", []string{"CollectionPage"}}, {"OrderedCollectionPage", []string{"OrderedCollectionPage"}},
	}
	_ = objNames
	fnCopy := w.Func("CopyItemProperties")
	funcs := []string{"CopyItemProperties", "copyAllItemProperties", "CopyObjectProperties", "UpdatePersonProperties",
		"CopyCollectionProperties", "CopyOrderedCollectionProperties", "CopyCollectionPageProperties", "CopyOrderedCollectionPageProperties",
		"replaceIfItem", "replaceIfItemCollection", "replaceIfNaturalLanguageValues", "replaceIfSource"}

	// --- nil rejection ---
	for _, side := range []string{"to", "from"} {
		side := side
		guard(c, "C18/reject/"+side+"-nil", func() {
			ex := w.NewExec()
			ex.installIRIEqualsHook()
			st := newState()
			T := w.Type("*Object")
			other, oobj, osv := ex.symItemOfType(T, "x")
			nilItem := &IfaceVal{Alts: []IfaceAlt{{C: TTrue}}}
			args := []Value{nilItem, other}
			if side == "from" {
				args = []Value{other, nilItem}
			}
			res := ex.Call(st, fnCopy, args, nil).(*TupleVal)
			err := res.V[1].(*Term)
			hyps := append([]*Term{ex.NoPanic()}, ex.assumes...)
			unchanged := ex.valueEq(ex.heapGet(st, oobj), osv)
			c.Add(&Obligation{Name: "C18/reject/" + side + "-nil", Hyps: hyps, Goal: And(Neq(err, ErrNil), unchanged), Pos: ex.pos(fnCopy.Pos()), Funcs: funcs})
			for i, p := range ex.panics {
				c.Add(&Obligation{Name: fmt.Sprintf("C18/reject/%s-nil/nopanic#%d", side, i), Hyps: ex.assumes, Goal: Not(p.C), Pos: p.Pos})
			}
		})
	}

	for _, f := range fams {
		for _, form := range []string{"ptr", "val"} {
			f, form := f, form
			caseName := fmt.Sprintf("to=*%s,from=%s", f.goType, map[string]string{"ptr": "*", "val": ""}[form]+f.goType)
			guard(c, "C18/"+caseName, func() {
				ex := w.NewExec()
				ex.installIRIEqualsHook()
				st := newState()
				toT := w.Type("*" + f.goType)
				fromT := toT
				if form == "val" {
					fromT = w.Type(f.goType)
				}
				toI, toObj, toSV := ex.symItemOfType(toT, "to")
				fromI, fromObj, fromSV := ex.symItemOfType(fromT, "from")
				res := ex.Call(st, fnCopy, []Value{toI, fromI}, nil).(*TupleVal)
				err := res.V[1].(*Term)
				structT := toT.Underlying().(*types.Pointer).Elem()
				sT := structT.Underlying().(*types.Struct)
				final := ex.heapGet(st, toObj).(*StructVal)
				fi := func(name string) int { return fieldIndex(structT, name) }
				toID, toType := toSV.F[fi("ID")].(*Term), toSV.F[fi("Type")].(*Term)
				fromID, fromType := fromSV.F[fi("ID")].(*Term), fromSV.F[fi("Type")].(*Term)
				idEq := App("iriEq", SBool, toID, fromID, TFalse)
				inFam := strIn(toType, f.names)
				base := append([]*Term{ex.NoPanic()}, ex.assumes...)
				pos := ex.pos(fnCopy.Pos())
				unchanged := ex.valueEq(final, toSV)
				pre := "C18/" + caseName
				wit := []Witness{{"toType", strIndexTerm(toType, allTypeNames())}, {"fromType", strIndexTerm(fromType, allTypeNames())}, {"idEq", idEq}}
				// rejects
				c.Add(&Obligation{Name: pre + "/reject/id-mismatch", Group: pre, Common: base, Hyps: []*Term{Not(idEq), inFam},
					Goal: And(Neq(err, ErrNil), unchanged), Pos: pos, Funcs: funcs, Witnesses: wit})
				c.Add(&Obligation{Name: pre + "/reject/type-mismatch", Group: pre, Common: base, Hyps: []*Term{Neq(toType, StrLit("")), Neq(toType, fromType), inFam},
					Goal: And(Neq(err, ErrNil), unchanged), Pos: pos, Funcs: funcs, Witnesses: wit})
				// any error leaves `to` untouched
				c.Add(&Obligation{Name: pre + "/reject/error-leaves-to-untouched", Group: pre, Common: base, Hyps: []*Term{Neq(err, ErrNil), inFam},
					Goal: unchanged, Pos: pos, Funcs: funcs, Witnesses: wit})
				// success on the supported domain
				okHyp := []*Term{idEq, Or(Eq(toType, StrLit("")), Eq(toType, fromType)), inFam}
				if f.goType != "Object" {
					// an empty `to` type on a non-Object struct is outside the domain (type names the struct)
				}
				c.Add(&Obligation{Name: pre + "/accept", Group: pre, Common: base, Hyps: okHyp, Goal: Eq(err, ErrNil), Pos: pos, Funcs: funcs, Witnesses: wit})
				succ := []*Term{Eq(err, ErrNil), inFam}
				c.Add(&Obligation{Name: pre + "/id-type", Group: pre, Common: base, Hyps: succ,
					Goal: And(Eq(final.F[fi("ID")].(*Term), fromID), Eq(final.F[fi("Type")].(*Term), fromType)), Pos: pos, Funcs: funcs, Witnesses: wit})
				// from is never modified
				if fromObj != nil {
					c.Add(&Obligation{Name: pre + "/frame/from", Group: pre, Common: base, Hyps: []*Term{inFam}, Goal: ex.valueEq(ex.heapGet(st, fromObj), fromSV), Pos: pos, Funcs: funcs})
				}
				for k := 0; k < sT.NumFields(); k++ {
					name := sT.Field(k).Name()
					if name == "ID" || name == "Type" {
						continue
					}
					wit = append(wit, Witness{"ts_" + name, ex.isSet(toSV.F[k])}, Witness{"fs_" + name, ex.isSet(fromSV.F[k])})
				}
				rp := c18Replay(f.goType, form, sT)
				for i := range c.Obls {
					if c.Obls[i].Group == pre && c.Obls[i].Replay == nil && !c.Obls[i].ExpectSat {
						c.Obls[i].Replay = rp
						c.Obls[i].Witnesses = wit
					}
				}
				for k := 0; k < sT.NumFields(); k++ {
					name := sT.Field(k).Name()
					if name == "ID" || name == "Type" {
						continue
					}
					tv, fv, nv := toSV.F[k], fromSV.F[k], final.F[k]
					eqT, eqF := ex.valueEq(nv, tv), ex.valueEq(nv, fv)
					fw := wit
					c.Add(&Obligation{Name: fmt.Sprintf("%s/either/field=%s", pre, name), Group: pre, Common: base, Hyps: succ, Goal: Or(eqT, eqF), Pos: pos, Funcs: funcs, Witnesses: fw, Replay: rp})
					c.Add(&Obligation{Name: fmt.Sprintf("%s/keep/field=%s", pre, name), Group: pre, Common: base, Hyps: append([]*Term{ex.isSet(tv), Not(ex.isSet(fv))}, succ...), Goal: eqT, Pos: pos, Funcs: funcs, Witnesses: fw, Replay: rp})
					if c18Merged[name] {
						c.Add(&Obligation{Name: fmt.Sprintf("%s/take/field=%s", pre, name), Group: pre, Common: base, Hyps: append([]*Term{ex.isSet(fv)}, succ...), Goal: eqF, Pos: pos, Funcs: funcs, Witnesses: fw, Replay: rp})
					}
				}
				for i, p := range ex.panics {
					c.Add(&Obligation{Name: fmt.Sprintf("%s/nopanic/%s#%d", pre, p.Kind, i), Group: pre + "/nopanic", Common: ex.assumes, Goal: Not(p.C), Pos: p.Pos, Funcs: funcs})
				}
				// vacuity: the success path is reachable with a set field on both sides
				c.Add(&Obligation{Name: pre + "/cover/success", ExpectSat: true, Group: pre, Common: base, Hyps: []*Term{inFam},
					Goal: And(Eq(err, ErrNil), ex.isSet(toSV.F[fi("Name")]), ex.isSet(fromSV.F[fi("Name")]))})
				for _, n := range sortedNotes(ex) {
					c.Notes = appendUnique(c.Notes, n)
				}
			})
		}
	}
	// unsupported type: an Activity is refused and left untouched
	guard(c, "C18/reject/unsupported", func() {
		ex := w.NewExec()
		ex.installIRIEqualsHook()
		st := newState()
		toT := w.Type("*Activity")
		toI, toObj, toSV := ex.symItemOfType(toT, "to")
		fromI, _, _ := ex.symItemOfType(toT, "from")
		res := ex.Call(st, fnCopy, []Value{toI, fromI}, nil).(*TupleVal)
		err := res.V[1].(*Term)
		toType := toSV.F[fieldIndex(toT.Underlying().(*types.Pointer).Elem(), "Type")].(*Term)
		names := vocabNames(func(e vocabEntry) bool { return e.Family == "activity" || e.Family == "intransitive" })
		c.Add(&Obligation{Name: "C18/reject/unsupported/to=*Activity", Hyps: append([]*Term{ex.NoPanic(), strIn(toType, names)}, ex.assumes...),
			Goal: And(Neq(err, ErrNil), ex.valueEq(ex.heapGet(st, toObj), toSV)), Pos: ex.pos(fnCopy.Pos()), Funcs: funcs})
	})
}

func appendUnique(l []string, s string) []string {
	for _, x := range l {
		if x == s {
			return l
		}
	}
	return append(l, s)
}

func allTypeNames() []string {
	r := []string{""}
	for _, e := range vocab {
		r = append(r, e.Name)
	}
	return r
}

func strIndexTerm(s *Term, names []string) *Term {
	var r *Term = IntLit(-1)
	for i := len(names) - 1; i >= 0; i-- {
		r = Ite(Eq(s, StrLit(names[i])), IntLit(int64(i)), r)
	}
	return r
}

// sampleExpr gives two distinct "set" Go expressions and the zero expression for a field type.
func sampleExpr(t types.Type) (a, b, zero string, ok bool) {
	switch classify(t) {
	case KIface:
		return `IRI("https://example.com/a")`, `IRI("https://example.com/b")`, "nil", true
	case KStr:
		return fmt.Sprintf("%s(%q)", typeName(t), "text/a"), fmt.Sprintf("%s(%q)", typeName(t), "text/b"), fmt.Sprintf("%s(\"\")", typeName(t)), true
	case KInt:
		return typeName(t) + "(5)", typeName(t) + "(7)", typeName(t) + "(0)", true
	case KFloat:
		return "1.5", "2.5", "0", true
	case KBool:
		return "true", "true", "false", true
	case KTime:
		return "time.Unix(1000,0)", "time.Unix(2000,0)", "time.Time{}", true
	case KBytes:
		return typeName(t) + "(\"a\")", typeName(t) + "(\"b\")", "nil", true
	case KSlice:
		switch typeName(t) {
		case "ItemCollection":
			return `ItemCollection{IRI("https://example.com/a")}`, `ItemCollection{IRI("https://example.com/b")}`, "nil", true
		case "NaturalLanguageValues":
			return `NaturalLanguageValues{{Ref: NilLangRef, Value: Content("a")}}`, `NaturalLanguageValues{{Ref: NilLangRef, Value: Content("b")}}`, "nil", true
		}
	case KStruct:
		if typeName(t) == "Source" {
			return `Source{MediaType: "text/a", Content: NaturalLanguageValues{{Value: Content("a")}}}`, `Source{MediaType: "text/b"}`, "Source{}", true
		}
	case KPtr:
		el := strings.TrimPrefix(typeName(t), "*")
		return "&" + el + "{}", "&" + el + "{}", "nil", true
	}
	return "", "", "", false
}

// c18Replay: builds to/from with every field in the set/unset configuration of the witness and
// checks every clause of the property on the real CopyItemProperties.
func c18Replay(goType, form string, sT *types.Struct) func(map[string]string) string {
	return func(m map[string]string) string {
		names := allTypeNames()
		typOf := func(k string) string {
			var ti int
			fmt.Sscan(m[k], &ti)
			if ti >= 0 && ti < len(names) {
				return names[ti]
			}
			return "X-" + k
		}
		amp := "&"
		if form == "val" {
			amp = ""
		}
		fromID := "https://example.com/1"
		if m["idEq"] != "true" {
			fromID = "https://other.example.org/2"
		}
		var b strings.Builder
		fmt.Fprintf(&b, `package activitypub

import (
	"reflect"
	"testing"
	"time"
)

var _ = time.Now

func TestVerifReplay(t *testing.T) {
	to := &%[1]s{ID: "https://example.com/1", Type: %[2]q}
	from := %[3]s%[1]s{ID: %[4]q, Type: %[5]q}
`, goType, typOf("toType"), amp, fromID, typOf("fromType"))
		var merged []string
		for k := 0; k < sT.NumFields(); k++ {
			name := sT.Field(k).Name()
			if name == "ID" || name == "Type" {
				continue
			}
			a, bb, _, ok := sampleExpr(sT.Field(k).Type())
			if !ok {
				continue
			}
			if m["ts_"+name] == "true" {
				fmt.Fprintf(&b, "\tto.%s = %s\n", name, a)
			}
			if m["fs_"+name] == "true" {
				fmt.Fprintf(&b, "\tfrom.%s = %s\n", name, bb)
			}
			if c18Merged[name] {
				merged = append(merged, name)
			}
		}
		fmt.Fprintf(&b, "\tmerged := map[string]bool{}\n\tfor _, n := range %#v {\n\t\tmerged[n] = true\n\t}\n", merged)
		b.WriteString(`	before := *to
	fromV := reflect.Indirect(reflect.ValueOf(from))
	idEq := to.ID.Equals(fromV.FieldByName("ID").Interface().(ID), false)
	toType, fromType := to.Type, fromV.FieldByName("Type").Interface().(ActivityVocabularyType)
	_, err := CopyItemProperties(to, from)
	if err != nil {
		if !reflect.DeepEqual(*to, before) {
			t.Fatalf("merge was refused (%v) but to was modified", err)
		}
		if idEq && (toType == "" || toType == fromType) {
			t.Fatalf("a valid merge (equivalent ids, compatible types %q/%q) was refused: %v", toType, fromType, err)
		}
		return
	}
	if !idEq {
		t.Fatalf("merge accepted although ids %s / %s are not equivalent", before.ID, fromV.FieldByName("ID").Interface())
	}
	if toType != "" && toType != fromType {
		t.Fatalf("merge accepted although to has type %q and from has type %q", toType, fromType)
	}
	isSet := func(v reflect.Value) bool { return !v.IsZero() }
	bv, av := reflect.ValueOf(before), reflect.ValueOf(*to)
	for i := 0; i < bv.NumField(); i++ {
		name := bv.Type().Field(i).Name
		was, now, want := bv.Field(i), av.Field(i), fromV.FieldByName(name)
		if name == "ID" || name == "Type" {
			if !reflect.DeepEqual(now.Interface(), want.Interface()) {
				t.Fatalf("%s after merge is %v, from has %v", name, now, want)
			}
			continue
		}
		keptTo, tookFrom := reflect.DeepEqual(now.Interface(), was.Interface()), reflect.DeepEqual(now.Interface(), want.Interface())
		if !keptTo && !tookFrom {
			t.Fatalf("%s after merge is neither to's (%v) nor from's (%v): %v", name, was, want, now)
		}
		if isSet(was) && !isSet(want) && !keptTo {
			t.Fatalf("%s was set in to (%v) and unset in from, but was lost: %v", name, was, now)
		}
		if merged[name] && isSet(want) && !tookFrom {
			t.Fatalf("%s set in from (%v) was not taken: %v", name, want, now)
		}
	}
}
`)
		return b.String()
	}
}
