package main

import (
	"bytes"
	"context"
	"os"
	"os/exec"
	"path/filepath"
	"strconv"
	"strings"
	"sync"
	"time"
)

type SolverResult struct {
	Status string // unsat | sat | unknown | timeout | error
	Solver string
	Model  string
	Output string
	Secs   float64
	// per-solver statuses (for cross checks)
	All map[string]string
}

type solverSpec struct {
	name string
	argv func(file string, toSecs int) []string
	pre  string
}

var solvers = []solverSpec{
	{name: "z3-new", argv: func(f string, to int) []string { return []string{"z3-new", "-T:" + itoa(to), f} }},
	{name: "z3", argv: func(f string, to int) []string { return []string{"z3", "-T:" + itoa(to), f} }},
	{name: "cvc5", argv: func(f string, to int) []string {
		return []string{"cvc5", "--tlimit=" + itoa(to*1000), "--produce-models", f}
	}, pre: "(set-logic ALL)\n"},
}

func itoa(n int) string { return strconv.Itoa(n) }

var solverAvail = map[string]bool{}
var solverAvailOnce sync.Once

func checkSolvers() {
	solverAvailOnce.Do(func() {
		for _, s := range solvers {
			if _, err := exec.LookPath(s.name); err == nil {
				solverAvail[s.name] = true
			}
		}
	})
}

// Solve writes the script (without check-sat) to file and races the solvers.
// If needTwo is set, waits until two solvers have answered definitively (or all finished).
func solveWithTail(dir, name, body, tail string, toSecs int, needTwo bool) SolverResult {
	checkSolvers()
	os.MkdirAll(dir, 0o755)
	start := time.Now()
	type one struct {
		st, solver, out string
	}
	ctx, cancel := context.WithCancel(context.Background())
	defer cancel()
	ch := make(chan one, len(solvers))
	n := 0
	for _, s := range solvers {
		if !solverAvail[s.name] {
			continue
		}
		n++
		s := s
		file := filepath.Join(dir, name+"."+s.name+".smt2")
		var sb strings.Builder
		sb.WriteString(s.pre)
		sb.WriteString(body)
		sb.WriteString("(check-sat)\n")
		sb.WriteString(tail)
		if err := os.WriteFile(file, []byte(sb.String()), 0o644); err != nil {
			ch <- one{"error", s.name, err.Error()}
			continue
		}
		go func() {
			argv := s.argv(file, toSecs)
			c, cc := context.WithTimeout(ctx, time.Duration(toSecs+2)*time.Second)
			defer cc()
			cmd := exec.CommandContext(c, argv[0], argv[1:]...)
			var out bytes.Buffer
			cmd.Stdout = &out
			cmd.Stderr = &out
			_ = cmd.Run()
			o := out.String()
			first := strings.TrimSpace(strings.SplitN(o, "\n", 2)[0])
			st := "unknown"
			switch {
			case first == "unsat":
				st = "unsat"
			case first == "sat":
				st = "sat"
			case first == "timeout" || c.Err() != nil:
				st = "timeout"
			case strings.Contains(first, "error") || strings.HasPrefix(first, "(error"):
				st = "error"
			}
			ch <- one{st, s.name, o}
		}()
	}
	res := SolverResult{Status: "unknown", All: map[string]string{}}
	definitive := 0
	for i := 0; i < n; i++ {
		r := <-ch
		res.All[r.solver] = r.st
		if r.st == "unsat" || r.st == "sat" {
			definitive++
			if res.Status != "unsat" && res.Status != "sat" {
				res.Status, res.Solver, res.Output = r.st, r.solver, r.out
				if r.st == "sat" {
					if i := strings.Index(r.out, "\n"); i >= 0 {
						res.Model = r.out[i+1:]
					}
				}
			} else if res.Status != r.st {
				res.Status = "error"
				res.Output = "SOLVER DISAGREEMENT: " + res.Solver + "=" + res.All[res.Solver] + " vs " + r.solver + "=" + r.st
			}
			if !needTwo || definitive >= 2 {
				break
			}
		} else if res.Status == "unknown" && (r.st == "timeout" || r.st == "error") {
			if res.Output == "" || r.st == "error" {
				res.Output = r.solver + ": " + r.out
			}
			if r.st == "timeout" && res.Status == "unknown" {
				// keep unknown unless everyone timed out
			}
		}
	}
	cancel()
	if res.Status == "unknown" {
		allTO := len(res.All) > 0
		for _, s := range res.All {
			if s != "timeout" {
				allTO = false
			}
		}
		if allTO {
			res.Status = "timeout"
		}
	}
	res.Secs = time.Since(start).Seconds()
	if res.Status == "unsat" {
		// prune files of discharged goals except one per name for evidence samples
		for _, s := range solvers {
			if s.name != res.Solver {
				os.Remove(filepath.Join(dir, name+"."+s.name+".smt2"))
			}
		}
	}
	return res
}
