package main

import (
	"bytes"
	"context"
	"fmt"
	"os"
	"os/exec"
	"path/filepath"
	"regexp"
	"strconv"
	"strings"
	"sync"
	"time"
)

type SolverResult struct {
	Status string // unsat | sat | unknown | timeout | error
	Solver string
	Model  string
	Output string
	Secs   float64
	// per-solver statuses (for cross checks)
	All map[string]string
}

type solverSpec struct {
	name string
	argv func(file string, toSecs int) []string
	pre  string
}

var solvers = []solverSpec{
	{name: "z3-new", argv: func(f string, to int) []string { return []string{"z3-new", "-T:" + itoa(to), f} }},
	{name: "z3", argv: func(f string, to int) []string { return []string{"z3", "-T:" + itoa(to), f} }},
	{name: "cvc5", argv: func(f string, to int) []string {
		return []string{"cvc5", "--tlimit=" + itoa(to*1000), "--produce-models", f}
	}, pre: "(set-logic ALL)\n"},
}

func itoa(n int) string { return strconv.Itoa(n) }

var solverAvail = map[string]bool{}
var solverAvailOnce sync.Once

func checkSolvers() {
	solverAvailOnce.Do(func() {
		for _, s := range solvers {
			if _, err := exec.LookPath(s.name); err == nil {
				solverAvail[s.name] = true
			}
		}
	})
}

// Solve writes the script (without check-sat) to file and races the solvers.
// If needTwo is set, waits until two solvers have answered definitively (or all finished).
func solveWithTail(dir, name, body, tail string, toSecs int, needTwo bool) SolverResult {
	checkSolvers()
	os.MkdirAll(dir, 0o755)
	start := time.Now()
	type one struct {
		st, solver, out string
	}
	ctx, cancel := context.WithCancel(context.Background())
	defer cancel()
	ch := make(chan one, len(solvers))
	n := 0
	for _, s := range solvers {
		if !solverAvail[s.name] {
			continue
		}
		n++
		s := s
		file := filepath.Join(dir, name+"."+s.name+".smt2")
		var sb strings.Builder
		sb.WriteString(s.pre)
		sb.WriteString(body)
		sb.WriteString("(check-sat)\n")
		sb.WriteString(tail)
		if err := os.WriteFile(file, []byte(sb.String()), 0o644); err != nil {
			ch <- one{"error", s.name, err.Error()}
			continue
		}
		go func() {
			argv := s.argv(file, toSecs)
			c, cc := context.WithTimeout(ctx, time.Duration(toSecs+2)*time.Second)
			defer cc()
			cmd := exec.CommandContext(c, argv[0], argv[1:]...)
			var out bytes.Buffer
			cmd.Stdout = &out
			cmd.Stderr = &out
			_ = cmd.Run()
			o := out.String()
			first := strings.TrimSpace(strings.SplitN(o, "\n", 2)[0])
			st := "unknown"
			switch {
			case first == "unsat":
				st = "unsat"
			case first == "sat":
				st = "sat"
			case first == "timeout" || c.Err() != nil:
				st = "timeout"
			case strings.Contains(first, "error") || strings.HasPrefix(first, "(error"):
				st = "error"
			}
			ch <- one{st, s.name, o}
		}()
	}
	res := SolverResult{Status: "unknown", All: map[string]string{}}
	definitive := 0
	for i := 0; i < n; i++ {
		r := <-ch
		res.All[r.solver] = r.st
		if r.st == "unsat" || r.st == "sat" {
			definitive++
			if res.Status != "unsat" && res.Status != "sat" {
				res.Status, res.Solver, res.Output = r.st, r.solver, r.out
				if r.st == "sat" {
					if i := strings.Index(r.out, "\n"); i >= 0 {
						res.Model = r.out[i+1:]
					}
				}
			} else if res.Status != r.st {
				res.Status = "error"
				res.Output = "SOLVER DISAGREEMENT: " + res.Solver + "=" + res.All[res.Solver] + " vs " + r.solver + "=" + r.st
			}
			if !needTwo || definitive >= 2 {
				break
			}
		} else if res.Status == "unknown" && (r.st == "timeout" || r.st == "error") {
			if res.Output == "" || r.st == "error" {
				res.Output = r.solver + ": " + r.out
			}
			if r.st == "timeout" && res.Status == "unknown" {
				// keep unknown unless everyone timed out
			}
		}
	}
	cancel()
	if res.Status == "unknown" {
		allTO := len(res.All) > 0
		for _, s := range res.All {
			if s != "timeout" {
				allTO = false
			}
		}
		if allTO {
			res.Status = "timeout"
		}
	}
	res.Secs = time.Since(start).Seconds()
	if res.Status == "unsat" {
		// prune files of discharged goals except one per name for evidence samples
		for _, s := range solvers {
			if s.name != res.Solver {
				os.Remove(filepath.Join(dir, name+"."+s.name+".smt2"))
			}
		}
	}
	return res
}

type BatchResult struct {
	Status []string // per goal: unsat | sat | unknown | timeout | error | none
	Solver []string
	Secs   float64
	Err    string
}

var goalRe = regexp.MustCompile(`^"?goal (\d+) `)

// solveBatch runs an incremental script (goals in push/pop scopes, tagged by echo) on all solvers.
func solveBatch(dir, name, body string, n int, toSecs int, needTwo bool) BatchResult {
	checkSolvers()
	os.MkdirAll(dir, 0o755)
	start := time.Now()
	type one struct {
		solver string
		st     []string
		err    string
	}
	ctx, cancel := context.WithCancel(context.Background())
	defer cancel()
	ch := make(chan one, len(solvers))
	running := 0
	for _, s := range solvers {
		if !solverAvail[s.name] {
			continue
		}
		running++
		s := s
		file := filepath.Join(dir, name+"."+s.name+".smt2")
		var sb strings.Builder
		var argv []string
		switch s.name {
		case "cvc5":
			sb.WriteString("(set-logic ALL)\n")
			argv = []string{"cvc5", "--incremental", "--tlimit-per=" + strconv.Itoa(toSecs*1000), file}
		default:
			sb.WriteString("(set-option :timeout " + strconv.Itoa(toSecs*1000) + ")\n")
			argv = []string{s.name, file}
		}
		sb.WriteString(body)
		if err := os.WriteFile(file, []byte(sb.String()), 0o644); err != nil {
			ch <- one{solver: s.name, err: err.Error()}
			continue
		}
		go func() {
			c, cc := context.WithTimeout(ctx, time.Duration(toSecs*n+30)*time.Second)
			defer cc()
			cmd := exec.CommandContext(c, argv[0], argv[1:]...)
			var out bytes.Buffer
			cmd.Stdout = &out
			cmd.Stderr = &out
			_ = cmd.Run()
			st := make([]string, n)
			cur := -1
			errs := ""
			for _, ln := range strings.Split(out.String(), "\n") {
				ln = strings.TrimSpace(ln)
				if m := goalRe.FindStringSubmatch(ln); m != nil {
					cur, _ = strconv.Atoi(m[1])
					continue
				}
				switch ln {
				case "sat", "unsat", "unknown", "timeout":
					if cur >= 0 && cur < n && st[cur] == "" {
						st[cur] = ln
					}
				default:
					if strings.Contains(ln, "error") && len(errs) < 600 {
						errs += s.name + ": " + ln + "; "
					}
				}
			}
			ch <- one{solver: s.name, st: st, err: errs}
		}()
	}
	res := BatchResult{Status: make([]string, n), Solver: make([]string, n)}
	count := make([]int, n)
	var grace <-chan time.Time
	for i := 0; i < running; i++ {
		var r one
		select {
		case r = <-ch:
		case <-grace:
			// cross-check window over: every goal has a definite answer from one solver already
			i = running
			continue
		}
		if r.err != "" {
			res.Err += r.err
		}
		for k := 0; k < n && r.st != nil; k++ {
			s := r.st[k]
			if s != "sat" && s != "unsat" {
				if res.Status[k] == "" || res.Status[k] == "none" {
					if s == "" {
						s = "none"
					}
					res.Status[k] = s
				}
				continue
			}
			if res.Status[k] == "sat" || res.Status[k] == "unsat" {
				if res.Status[k] != s {
					res.Status[k] = "error"
					res.Err += fmt.Sprintf("SOLVER DISAGREEMENT on goal %d: %s=%s vs %s=%s; ", k, res.Solver[k], res.Status[k], r.solver, s)
				} else {
					count[k]++
				}
				continue
			}
			res.Status[k], res.Solver[k] = s, r.solver
			count[k] = 1
		}
		done := true
		for k := 0; k < n; k++ {
			if res.Status[k] != "sat" && res.Status[k] != "unsat" && res.Status[k] != "error" {
				done = false
			}
			if needTwo && count[k] < 2 && res.Status[k] != "error" {
				done = false
			}
		}
		if done {
			break
		}
		if needTwo && grace == nil {
			all := true
			for k := 0; k < n; k++ {
				if res.Status[k] != "sat" && res.Status[k] != "unsat" && res.Status[k] != "error" {
					all = false
				}
			}
			if all {
				// a second opinion is wanted, but not at any price: the other solvers get as long again as the
				// first one took (at least 5 s)
				d := 2 * time.Since(start)
				if d < 5*time.Second {
					d = 5 * time.Second
				}
				grace = time.After(d)
			}
		}
	}
	cancel()
	res.Secs = time.Since(start).Seconds()
	return res
}

// quickSat runs one short satisfiability query (z3-new, else z3); anything but unsat counts as satisfiable.
func quickSat(body string) bool {
	checkSolvers()
	bin := "z3-new"
	if !solverAvail[bin] {
		bin = "z3"
	}
	cmd := exec.Command(bin, "-in", "-T:3")
	cmd.Stdin = strings.NewReader(body + "(check-sat)\n")
	out, _ := cmd.Output()
	return !strings.HasPrefix(strings.TrimSpace(string(out)), "unsat")
}
