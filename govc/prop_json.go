package main

// JSON member tables: the real MarshalJSON of a struct is executed with the leaf writers recording the
// members they would emit (name, semantic kind, source value, condition); the real JSONLoad<T> is then
// executed on the document those members describe, with the leaf readers used by their contract
// (reading a member written by the matching leaf writer yields the written value). The leaf pairs
// themselves are checked separately (group <P>/leaf/...).

import (
	"fmt"
	"go/types"
	"sort"
	"strings"

	"golang.org/x/tools/go/ssa"
)

type jMember struct {
	Name string
	Kind string // iri, type, mime, nlv, string, bool, int, float, time, duration, item, items, source, endpoints, pubkey, raw
	Src  Value
	Cond *Term
	Pos  string
	Via  string // the leaf writer
	Text *Term  // for quoted kinds: the bytes between the quotes
}

// quotedPayload matches "\"" ++ x ++ "\"".
func quotedPayload(t *Term) (*Term, bool) {
	if t.Op == "app" && t.Name == "bcat" && t.Args[1] == BytesLit("\"") {
		in := t.Args[0]
		if in.Op == "app" && in.Name == "bcat" && in.Args[0] == BytesLit("\"") {
			return in.Args[1], true
		}
	}
	return nil, false
}

type jTable struct {
	Members []*jMember
	reg     map[*Term]*jMember // registered encodings of leaf marshalers (by bytes term)
	strReg  map[*Term]*jMember // fmt.Sprintf results (by string term)
}

func strLeaves(t *Term, c *Term, f func(c *Term, s string, ok bool)) {
	if c == TFalse {
		return
	}
	if t.Op == "ite" {
		strLeaves(t.Args[1], And(c, t.Args[0]), f)
		strLeaves(t.Args[2], And(c, Not(t.Args[0])), f)
		return
	}
	s, ok := t.StrVal()
	f(c, s, ok)
}

// nonEmptyOf: the value is "set" in the JSON normal form.
func (ex *Exec) jsonNonEmpty(v Value) *Term {
	switch x := v.(type) {
	case *Term:
		switch x.S {
		case SStr:
			return Gt(SLen(x), IntLit(0))
		case SBytes:
			return Gt(BLen(x), IntLit(0))
		case SInt:
			return Neq(x, IntLit(0))
		case SBool:
			return x
		case STime:
			return Neq(Inst(x), IntLit(0))
		}
		return TTrue
	case *SliceVal:
		return Gt(sliceLen(x), IntLit(0))
	case *IfaceVal:
		return Not(ex.isNilSpec(x))
	case *PtrVal:
		return nonNilPtr(x)
	}
	return TTrue
}

// installJSONWriterHooks makes the leaf writers record members into tbl.
func installJSONWriterHooks(ex *Exec, w *World, tbl *jTable) {
	tbl.reg = map[*Term]*jMember{}
	tbl.strReg = map[*Term]*jMember{}
	installIsNilSpecHook(ex)
	regBytes := func(kind string, src Value, nonEmpty *Term, via string) *Term {
		ex.objSeq++
		t := Var(fmt.Sprintf("json.%s!%d", kind, ex.objSeq), SBytes)
		ex.assume(Iff(Gt(App("blen", SInt, t), IntLit(0)), nonEmpty))
		tbl.reg[t] = &jMember{Kind: kind, Src: src, Via: via}
		return t
	}
	leafMarshal := func(name, kind string) {
		ex.hooks[name] = func(ex *Exec, st *State, fn *ssa.Function, a []Value) (Value, bool) {
			return &TupleVal{V: []Value{regBytes(kind, a[0], ex.jsonNonEmpty(a[0]), name), ErrNil}}, true
		}
	}
	leafMarshal("(IRI).MarshalJSON", "iri")
	leafMarshal("(ActivityVocabularyType).MarshalJSON", "type")
	leafMarshal("(MimeType).MarshalJSON", "mime")
	leafMarshal("(NaturalLanguageValues).MarshalJSON", "nlv")
	ex.hooks["(Source).MarshalJSON"] = func(ex *Exec, st *State, fn *ssa.Function, a []Value) (Value, bool) {
		sv := a[0].(*StructVal)
		ne := Or(ex.jsonNonEmpty(sv.F[0]), ex.jsonNonEmpty(sv.F[1]))
		return &TupleVal{V: []Value{regBytes("source", sv, ne, "(Source).MarshalJSON"), ErrNil}}, true
	}
	ex.hooks["(PublicKey).MarshalJSON"] = func(ex *Exec, st *State, fn *ssa.Function, a []Value) (Value, bool) {
		return &TupleVal{V: []Value{regBytes("pubkey", a[0], TTrue, "(PublicKey).MarshalJSON"), ErrNil}}, true
	}
	ex.hooks["(Endpoints).MarshalJSON"] = func(ex *Exec, st *State, fn *ssa.Function, a []Value) (Value, bool) {
		return &TupleVal{V: []Value{regBytes("endpoints", a[0], TTrue, "(Endpoints).MarshalJSON"), ErrNil}}, true
	}
	externals["json.Marshal"] = func(ex *Exec, st *State, a []Value, x *ssa.Call) Value {
		// encoding/json of a string: a JSON string
		return &TupleVal{V: []Value{regBytes("string", ex.payloadOfBasic(a[0]), TTrue, "encoding/json.Marshal"), ErrNil}}
	}
	externals["fmt.Sprintf"] = func(ex *Exec, st *State, a []Value, x *ssa.Call) Value {
		f, _ := a[0].(*Term).StrVal()
		kind := "raw"
		switch f {
		case `"%s"`:
			kind = "string"
		case `%t`:
			kind = "bool"
		case `"%t"`:
			kind = "quoted-bool"
		case `%d`:
			kind = "int"
		case `%g`, `%v`:
			kind = "float"
		case `%f`:
			kind = "float-six-decimals" // lossy: no reader gets the written number back
		}
		var src Value
		if sl, ok := a[1].(*SliceVal); ok {
			if n, ok := sliceLen(sl).IntVal(); ok && n == 1 {
				src = ex.payloadOfBasic(ex.readElem(st, sl, IntLit(0)))
			}
		}
		ex.objSeq++
		t := Var(fmt.Sprintf("fmt.Sprintf!%d", ex.objSeq), SStr)
		ex.assume(Gt(App("slen", SInt, t), IntLit(0)))
		tbl.strReg[t] = &jMember{Kind: kind, Src: src, Via: "fmt.Sprintf(" + f + ")"}
		return t
	}
	// the package's full JSON string escaper (a copy of encoding/json's): by contract it appends one JSON
	// string that decodes to its argument (the escaper's own loop is byte-level code outside the subset; C06)
	ex.hooks["stringBytes"] = func(ex *Exec, st *State, fn *ssa.Function, a []Value) (Value, bool) {
		p := a[0].(*PtrVal)
		cur := ex.load(st, p, nil, fn.Pos()).(*Term)
		src := a[1].(*Term)
		var sv Value = src
		if src.Op == "app" && src.Name == "s2b" {
			sv = src.Args[0]
		}
		t := regBytes("string", sv, TTrue, "stringBytes")
		ex.store(st, p, BCat(cur, t), fn.Pos())
		return nil, true
	}
	// strconv.FormatFloat(f, fmt, -1, 64): the shortest text that parses back to exactly f (documented guarantee)
	externals["strconv.FormatFloat"] = func(ex *Exec, st *State, a []Value, x *ssa.Call) Value {
		kind := "float-rounded"
		if p, ok := a[2].(*Term).IntVal(); ok && p == -1 {
			if bs, ok := a[3].(*Term).IntVal(); ok && bs == 64 {
				kind = "float"
			}
		}
		ex.objSeq++
		t := Var(fmt.Sprintf("strconv.FormatFloat!%d", ex.objSeq), SStr)
		ex.assume(Gt(App("slen", SInt, t), IntLit(0)))
		tbl.strReg[t] = &jMember{Kind: kind, Src: a[0], Via: "strconv.FormatFloat"}
		return t
	}
	record := func(st *State, name *Term, m jMember, pos string) {
		strLeaves(name, TTrue, func(c *Term, s string, ok bool) {
			mm := m
			mm.Cond = And(st.pc, c, m.Cond)
			mm.Pos = pos
			if !ok {
				mm.Name = "?" + name.String()
			} else {
				mm.Name = s
			}
			tbl.Members = append(tbl.Members, &mm)
		})
	}
	ex.hooks["JSONWriteProp"] = func(ex *Exec, st *State, fn *ssa.Function, a []Value) (Value, bool) {
		name, val := a[1].(*Term), a[2].(*Term)
		pos := ex.callerPos()
		var wrote *Term = TFalse
		bytesLeaves(val, TTrue, func(c, leaf *Term) {
			nonEmpty := Gt(BLen(leaf), IntLit(0))
			if m, ok := tbl.reg[leaf]; ok {
				mm := *m
				mm.Cond = And(c, nonEmpty)
				record(st, name, mm, pos)
			} else if leaf.Op == "app" && leaf.Name == "s2b" && tbl.strReg[leaf.Args[0]] != nil {
				mm := *tbl.strReg[leaf.Args[0]]
				mm.Cond = c
				nonEmpty = TTrue
				record(st, name, mm, pos)
			} else if leaf == BytesNil || leaf == BytesLit("") {
				return
			} else if x, ok := quotedPayload(leaf); ok {
				if x.Op == "app" && x.Name == "s2b" && x.Args[0].Op == "app" && x.Args[0].Name == "b2s" {
					x = x.Args[0].Args[0]
				}
				mm := jMember{Kind: "string", Src: B2S(x), Cond: c, Via: "JSONWriteProp", Text: x}
				if x.Op == "app" && x.Name == "xsd.duration" {
					mm.Kind, mm.Src = "duration", x.Args[0]
				} else if x.Op == "app" && x.Name == "time.format" {
					mm.Kind, mm.Src = "time-other-layout", x.Args[0]
					if l, ok := x.Args[1].StrVal(); ok && l == "2006-01-02T15:04:05Z07:00" {
						mm.Kind = "time"
					}
				}
				nonEmpty = TTrue
				record(st, name, mm, pos)
			} else {
				record(st, name, jMember{Kind: "raw", Src: leaf, Cond: And(c, nonEmpty), Via: "JSONWriteProp"}, pos)
			}
			wrote = Or(wrote, And(c, nonEmpty))
		})
		return wrote, true
	}
	// the instant and duration writers run for real on the assumed text codecs of their dependencies
	externals["go-xsd-duration.Marshal"] = func(ex *Exec, st *State, a []Value, x *ssa.Call) Value {
		t := App("xsd.duration", SBytes, a[0].(*Term))
		ex.assume(Gt(App("blen", SInt, t), IntLit(0)))
		return &TupleVal{V: []Value{t, ErrNil}}
	}
	ex.hooks["JSONWriteItemProp"] = func(ex *Exec, st *State, fn *ssa.Function, a []Value) (Value, bool) {
		ne := ex.jsonNonEmpty(a[2])
		record(st, a[1].(*Term), jMember{Kind: "item", Src: a[2], Cond: ne, Via: "JSONWriteItemProp"}, ex.callerPos())
		return ne, true
	}
	ex.hooks["JSONWriteItemCollectionProp"] = func(ex *Exec, st *State, fn *ssa.Function, a []Value) (Value, bool) {
		ne := ex.jsonNonEmpty(a[2])
		record(st, a[1].(*Term), jMember{Kind: "items", Src: a[2], Cond: ne, Via: "JSONWriteItemCollectionProp"}, ex.callerPos())
		return ne, true
	}
}

// payloadOfBasic: the basic value boxed in an interface (fmt arguments).
func (ex *Exec) payloadOfBasic(v Value) Value {
	iv, ok := v.(*IfaceVal)
	if !ok {
		return v
	}
	if len(iv.Alts) == 1 && iv.Alts[0].T != nil {
		return iv.Alts[0].V
	}
	return v
}

func (ex *Exec) callerPos() string {
	if len(ex.stack) > 0 {
		return fnName(ex.stack[len(ex.stack)-1])
	}
	return ""
}

// jsonWriterTable runs T.MarshalJSON on a symbolic value and returns the member table.
// jsonWriterResult: the bytes MarshalJSON returned in the last jsonWriterTable run (nil when it wrote nothing).
var jsonWriterResult *Term

func jsonWriterTable(w *World, tn string) (*Exec, *State, *StructVal, *jTable) {
	ex := w.NewExec()
	tbl := &jTable{}
	installJSONWriterHooks(ex, w, tbl)
	st := newState()
	T := w.Type(tn)
	sv := ex.symValue(T, varNamer("x"), false).(*StructVal)
	jsonWriterResult = nil
	if r, ok := ex.Call(st, w.Method(tn, "MarshalJSON"), []Value{sv}, nil).(*TupleVal); ok {
		if t, ok := r.V[0].(*Term); ok {
			jsonWriterResult = t
		}
	}
	return ex, st, sv, tbl
}

// readerKinds: which written kinds a leaf reader accepts (the value it returns is the written one).
var jsonReaderAccepts = map[string][]string{
	"JSONGetNaturalLanguageField":  {"nlv"},
	"JSONGetItem":                  {"item", "items", "iri"},
	"JSONGetURIItem":               {"item", "items", "iri"},
	"JSONGetItems":                 {"items", "item", "iri"},
	"JSONGetPublicKey":             {"pubkey"},
	"JSONGetActorEndpoints":        {"endpoints"},
	"GetAPSource":                  {"source"},
}


// convert the written source value to the reader's result type (nil when the shapes cannot be related)
func (ex *Exec) jsonConvert(w *World, st *State, m *jMember, rt types.Type) Value {
	src := m.Src
	if src == nil {
		return nil
	}
	itemT := w.TPkg.Scope().Lookup("Item").Type()
	switch classify(rt) {
	case KIface:
		switch v := src.(type) {
		case *IfaceVal:
			return v
		case *SliceVal:
			return &IfaceVal{Alts: []IfaceAlt{{C: TTrue, T: w.Type("ItemCollection"), V: v}}}
		case *Term:
			if v.S == SStr {
				return &IfaceVal{Alts: []IfaceAlt{{C: TTrue, T: w.Type("IRI"), V: v}}}
			}
		}
		return nil
	case KSlice:
		switch v := src.(type) {
		case *SliceVal:
			if types.Identical(v.Elem, rt.Underlying().(*types.Slice).Elem()) {
				return v
			}
		case *IfaceVal:
			// a single item read into a list: the list holding it (a list item is that list)
			if types.Identical(rt.Underlying().(*types.Slice).Elem(), itemT) {
				ok, sl := ex.assertTo(ex.normIface(v), w.Type("ItemCollection"))
				o := ex.newObj("single", OConcArr, itemT)
				ex.initCache[o] = &ArrVal{E: []Value{v}}
				one := &SliceVal{Elem: itemT, Alts: []SliceAlt{{C: TTrue, O: o, Off: IntLit(0), Len: IntLit(1)}}}
				if sl == nil {
					return one
				}
				return ex.merge(ok, sl, one)
			}
		}
		return nil
	case KPtr:
		if p, ok := src.(*PtrVal); ok {
			return p
		}
		if sv, ok := src.(*StructVal); ok {
			o := ex.newObj("decoded", OCell, sv.T)
			st.heap[o] = sv
			return &PtrVal{Alts: []PtrAlt{{C: TTrue, O: o}}}
		}
		return nil
	case KStruct:
		if s, ok := src.(*StructVal); ok {
			return s
		}
		return nil
	}
	if t, ok := src.(*Term); ok {
		want := ex.zeroValue(rt)
		if wt, ok := want.(*Term); ok && wt.S == t.S {
			return t
		}
	}
	return nil
}

// installJSONReaderContracts: leaf readers on the document described by tbl.
func installJSONReaderContracts(ex *Exec, w *World, tbl *jTable, doc *Term, reads *[]string) {
	for rname, accepts := range jsonReaderAccepts {
		rname, accepts := rname, accepts
		ex.hooks[rname] = func(ex *Exec, st *State, fn *ssa.Function, a []Value) (Value, bool) {
			rt := fn.Signature.Results().At(0).Type()
			fresh := func(tag string) Value {
				ex.objSeq++
				return ex.symValue(rt, varNamer(fmt.Sprintf("json.unknown.%s!%d", tag, ex.objSeq)), false)
			}
			if a[0] != Value(doc) {
				return fresh("nested"), true
			}
			prop := ""
			if len(a) > 1 {
				var ok bool
				prop, ok = a[1].(*Term).StrVal()
				if !ok {
					return fresh("prop"), true
				}
			}
			// which members the real body of this reader consults, in order (derived by running it on a probe document)
			keys := jsonConsultedKeys(w, fn, prop)
			*reads = append(*reads, fmt.Sprintf("%s:%v", rname, keys))
			var res Value = ex.zeroValue(rt)
			// the first consulted key that is present decides; among members of one name the first written wins
			var cands []*jMember
			for _, k := range keys {
				for _, m := range tbl.Members {
					if m.Name == k {
						cands = append(cands, m)
					}
				}
			}
			for i := len(cands) - 1; i >= 0; i-- {
				m := cands[i]
				var v Value
				for _, k := range accepts {
					if k == m.Kind {
						v = ex.jsonConvert(w, st, m, rt)
					}
				}
				if v == nil {
					v = fresh("mismatch." + m.Kind)
				}
				res = ex.merge(m.Cond, v, res)
			}
			return res, true
		}
	}
}

// installJSONDocument: the fastjson view of the document described by tbl. A member name maps to one value
// term whose observers (type, string bytes, number) are fixed by the first present member of that name.
func installJSONDocument(ex *Exec, tbl *jTable, doc *Term) {
	cache := map[string]*Term{}
	ex.jdocRoot = doc
	ex.jdocLookup = func(name string) *Term {
		if t, ok := cache[name]; ok {
			return t
		}
		var ms []*jMember
		for _, m := range tbl.Members {
			if m.Name == name {
				ms = append(ms, m)
			}
		}
		if len(ms) == 0 {
			cache[name] = jvNil
			return jvNil
		}
		jm := Var("member."+name, jvSort)
		cache[name] = jm
		var present *Term = TFalse
		var earlier *Term = TFalse
		for _, m := range ms {
			present = Or(present, m.Cond)
			first := And(m.Cond, Not(earlier)) // this member is the first present one of that name
			earlier = Or(earlier, m.Cond)
			src, _ := m.Src.(*Term)
			fact := func(t *Term) { ex.assume(Implies(first, t)) }
			switch m.Kind {
			case "iri", "type", "mime", "string":
				fact(Eq(jType(jm), IntLit(jTypeString)))
				if src != nil && src.S == SStr {
					fact(Eq(App("jstr", SBytes, jm), S2B(src)))
				}
			case "quoted-bool":
				fact(Eq(jType(jm), IntLit(jTypeString)))
			case "bool":
				if src != nil && src.S == SBool {
					fact(Eq(jType(jm), Ite(src, IntLit(jTypeTrue), IntLit(jTypeFalse))))
				}
			case "int":
				fact(Eq(jType(jm), IntLit(jTypeNumber)))
				if src != nil && src.S == SInt {
					fact(Eq(App("jint", SInt, jm), src))
					fact(Implies(Ge(src, IntLit(0)), Eq(App("juint", SInt, jm), src)))
				}
			case "float":
				fact(Eq(jType(jm), IntLit(jTypeNumber)))
				if src != nil && src.S == SReal {
					fact(Eq(App("jf64", SReal, jm), src))
				}
			case "time":
				fact(Eq(jType(jm), IntLit(jTypeString)))
				if src != nil && src.S == STime {
					txt := m.Text
					fact(Eq(App("jstr", SBytes, jm), txt))
					fact(Gt(BLen(txt), IntLit(0)))
					fact(Eq(App("rfc3339.err", SErr, txt), ErrNil))
					fact(Eq(Inst(App("rfc3339.parse", STime, txt)), Inst(src)))
				}
			case "duration":
				fact(Eq(jType(jm), IntLit(jTypeString)))
				if src != nil {
					txt := m.Text
					fact(Eq(App("jstr", SBytes, jm), txt))
					fact(Gt(BLen(txt), IntLit(0)))
					// assumed pair xsd.Marshal / xsd.Unmarshal
					fact(Eq(App("xsd.parse", SInt, txt), src))
					fact(Eq(App("xsd.err", SErr, txt), ErrNil))
				}
			case "nlv", "item", "items", "source", "endpoints", "pubkey", "raw":
				// structured values: read through the structured readers' contracts
			}
		}
		ex.assume(Iff(Neq(jm, jvNil), present))
		return jm
	}
	// xsd:duration text parses back with the xsd codec only
	externals["go-xsd-duration.Unmarshal"] = func(ex *Exec, st *State, a []Value, x *ssa.Call) Value {
		data := a[0].(*Term)
		p := a[1].(*PtrVal)
		var errT *Term = ErrNil
		var val Value
		bytesLeaves(data, TTrue, func(c, leaf *Term) {
			var v Value = App("xsd.parse", SInt, leaf)
			errT = Ite(c, App("xsd.err", SErr, leaf), errT)
			if val == nil {
				val = v
			} else {
				val = ex.merge(c, v, val)
			}
		})
		old := ex.load(st, p, nil, x.Pos())
		ex.store(st, p, ex.merge(Eq(errT, ErrNil), val, old), x.Pos())
		return errT
	}
}

// jsonNormEq: equality up to the JSON normal form.
var jsonKeyCache = map[string][]string{}

// jsonConsultedKeys runs the real leaf reader on a probe document and returns the literal member names
// it looks up directly on that document, in order of first lookup.
func jsonConsultedKeys(w *World, fn *ssa.Function, prop string) []string {
	ck := fnName(fn) + "|" + prop
	if r, ok := jsonKeyCache[ck]; ok {
		return r
	}
	ex := w.NewExec()
	ex.autoInv = true
	installAppendContracts(ex)
	// nested decoders are irrelevant for the lookup keys
	for _, h := range []string{"JSONLoadItem", "JSONItemsFn", "asIRI", "JSONLoadPublicKey"} {
		h := h
		ex.hooks[h] = func(ex *Exec, st *State, f *ssa.Function, a []Value) (Value, bool) {
			return ex.freshResults(f.Signature, "probe:"+h), true
		}
	}
	probe := Var("probe", jvSort)
	ex.assume(Neq(probe, jvNil))
	args := []Value{probe}
	if len(fn.Params) > 1 {
		args = append(args, StrLit(prop))
	}
	var keys []string
	func() {
		defer func() { recover() }()
		ex.Call(newState(), fn, args, nil)
	}()
	seen := map[string]bool{}
	for _, e := range ex.jgetLog {
		if e[0] != probe {
			continue
		}
		strLeaves(e[1], TTrue, func(c *Term, s string, ok bool) {
			if ok && !seen[s] {
				seen[s] = true
				keys = append(keys, s)
			}
		})
	}
	jsonKeyCache[ck] = keys
	return keys
}

func (ex *Exec) jsonNormEq(st *State, a, b Value, t types.Type) *Term {
	switch x := a.(type) {
	case *Term:
		y := b.(*Term)
		if x.S == STime {
			return Eq(Inst(x), Inst(y)) // instants compare as instants (the zone is normalised to UTC)
		}
		return Eq(x, y)
	case *IfaceVal:
		y := b.(*IfaceVal)
		return Or(Eq(ex.abstractItem(x), ex.abstractItem(y)), And(ex.isNilSpec(x), ex.isNilSpec(y)))
	case *SliceVal:
		y := b.(*SliceVal)
		return Or(ex.sliceIdentical(x, y), And(Eq(sliceLen(x), IntLit(0)), Eq(sliceLen(y), IntLit(0))), ex.sliceSameElems(st, x, y))
	case *StructVal:
		y := b.(*StructVal)
		stT := x.T.Underlying().(*types.Struct)
		var cs []*Term
		for i := range x.F {
			cs = append(cs, ex.jsonNormEq(st, x.F[i], y.F[i], stT.Field(i).Type()))
		}
		return And(cs...)
	case *PtrVal:
		return ex.normEq(st, a, b, t)
	}
	return ex.valueEq(a, b)
}

// sliceSameElems: two concrete-length one-element lists with the same element.
func (ex *Exec) sliceSameElems(st *State, x, y *SliceVal) *Term {
	if classify(x.Elem) != KIface {
		return TFalse
	}
	n1, ok1 := sliceLen(x).IntVal()
	n2, ok2 := sliceLen(y).IntVal()
	if !ok1 || !ok2 || n1 != n2 || n1 > 4 {
		return TFalse
	}
	var cs []*Term
	for i := int64(0); i < n1; i++ {
		cs = append(cs, Eq(ex.abstractItem(ex.readElem(st, x, IntLit(i)).(*IfaceVal)), ex.abstractItem(ex.readElem(st, y, IntLit(i)).(*IfaceVal))))
	}
	return And(cs...)
}

// jsonTag: the term declared for a field (jsonld struct tag), "" when none.
func jsonTag(st *types.Struct, i int) string {
	tag := st.Tag(i)
	for _, key := range []string{"jsonld:\"", "json:\""} {
		if k := strings.Index(tag, key); k >= 0 {
			rest := tag[k+len(key):]
			if e := strings.Index(rest, "\""); e >= 0 {
				name := strings.Split(rest[:e], ",")[0]
				if name != "" && name != "-" {
					return name
				}
			}
		}
	}
	return ""
}

var jsonStructs = append(append([]string{}, allStructNames...), "PublicKey")

func jsonRoundTripObligations(w *World, c *Check, P string) {
	for _, tn := range jsonStructs {
		tn := tn
		grp := P + "/" + tn + ".JSONRoundTrip"
		guard(c, grp, func() {
			ex, st, sv, tbl := jsonWriterTable(w, tn)
			written := jsonWriterResult
			var anyMember []*Term
			for _, m := range tbl.Members {
				anyMember = append(anyMember, m.Cond)
			}
			writerCommon := append([]*Term{ex.NoPanic()}, ex.assumes...)
			if written != nil {
				// the members only exist if MarshalJSON hands the document out: whenever a member is written, the result is not empty
				c.Add(&Obligation{Name: grp + "/document-emitted-when-a-member-is-written", Group: grp + "/emit", Common: writerCommon, Hyps: []*Term{Or(anyMember...)},
					Goal: Gt(BLen(written), IntLit(0)), Pos: ex.pos(w.Method(tn, "MarshalJSON").Pos()), Funcs: []string{"(" + tn + ").MarshalJSON"}, Replay: jsonReplay(tn, "", nil)})
			}
			doc := Var("doc", jvSort)
			ex.assume(Neq(doc, jvNil))
			var reads []string
			// the reader must not see the writer's hooks
			for _, h := range []string{"JSONWriteProp", "JSONWriteItemProp", "JSONWriteItemCollectionProp"} {
				delete(ex.hooks, h)
			}
			installJSONReaderContracts(ex, w, tbl, doc, &reads)
			installJSONDocument(ex, tbl, doc)
			T := w.Type(tn)
			yo := ex.newObj("y", OCell, T)
			st.heap[yo] = ex.zeroValue(T)
			yp := &PtrVal{Alts: []PtrAlt{{C: TTrue, O: yo}}}
			loader := w.Func("JSONLoad" + tn)
			err2 := ex.Call(st, loader, []Value{doc, yp}, nil).(*Term)
			y := ex.heapGet(st, yo).(*StructVal)
			common := append([]*Term{ex.NoPanic()}, ex.assumes...)
			// well-formed values: an IRI is not the nil-like "-" placeholder
			var wf func(v Value, t types.Type)
			wf = func(v Value, t types.Type) {
				switch x := v.(type) {
				case *Term:
					if x.S == SStr && (typeName(t) == "IRI" || typeName(t) == "ID") {
						common = append(common, Neq(Fold(x), StrLit("-")))
					}
				case *StructVal:
					stT := x.T.Underlying().(*types.Struct)
					for i := range x.F {
						wf(x.F[i], stT.Field(i).Type())
					}
				}
			}
			wf(sv, T)
			pos := ex.pos(loader.Pos())
			fns := []string{"(" + tn + ").MarshalJSON", "JSONLoad" + tn}
			c.Add(&Obligation{Name: grp + "/decode-ok", Group: grp, Common: common, Goal: Eq(err2, ErrNil), Pos: pos, Funcs: fns})
			stT := T.Underlying().(*types.Struct)
			for k := 0; k < stT.NumFields(); k++ {
				f := stT.Field(k)
				c.Add(&Obligation{Name: fmt.Sprintf("%s/field=%s", grp, f.Name()), Group: grp, Common: common, Hyps: []*Term{Eq(err2, ErrNil)},
					Goal: ex.jsonNormEq(st, y.F[k], sv.F[k], f.Type()), Pos: pos, Funcs: fns, Replay: jsonReplay(tn, f.Name(), f.Type())})
			}
			// the table itself: every member appears under the term the struct declares for its source field, once
			byName := map[string][]*jMember{}
			var names []string
			for _, m := range tbl.Members {
				if _, ok := byName[m.Name]; !ok {
					names = append(names, m.Name)
				}
				byName[m.Name] = append(byName[m.Name], m)
			}
			sort.Strings(names)
			for _, n := range names {
				ms := byName[n]
				var both []*Term
				for i := range ms {
					for j := i + 1; j < len(ms); j++ {
						both = append(both, And(ms[i].Cond, ms[j].Cond))
					}
				}
				c.Add(&Obligation{Name: fmt.Sprintf("%s/member=%s/written-once", grp, n), Group: grp, Common: common, Goal: Not(Or(both...)), Pos: ms[0].Pos, Funcs: fns[:1], Replay: jsonReplay(tn, "", nil)})
			}
			for i, p := range ex.panics {
				c.Add(&Obligation{Name: fmt.Sprintf("%s/nopanic/%s@%s#%d", grp, p.Kind, p.Fn, i), Group: grp + "/nopanic", Common: ex.assumes, Goal: Not(p.C), Pos: p.Pos, Funcs: fns})
			}
			var desc []string
			for _, m := range tbl.Members {
				desc = append(desc, fmt.Sprintf("%s:%s", m.Name, m.Kind))
			}
			c.Notes = appendUnique(c.Notes, fmt.Sprintf("%s writes %v; reads %v", tn, desc, reads))
		})
	}
}

// jsonNestedRoundTrip: the two value types that live inside another document (an actor's endpoints, an
// object's source): their own writer table against the reader that fetches them from the parent.
func jsonNestedRoundTrip(w *World, c *Check, P string) {
	for _, tn := range []string{"Endpoints", "Source"} {
		tn := tn
		grp := P + "/" + tn + ".JSONRoundTrip"
		guard(c, grp, func() {
			ex, st, sv, tbl := jsonWriterTable(w, tn)
			doc := Var("doc", jvSort)
			parent := Var("parent", jvSort)
			ex.assume(Neq(doc, jvNil))
			ex.assume(Neq(parent, jvNil))
			for _, h := range []string{"JSONWriteProp", "JSONWriteItemProp", "JSONWriteItemCollectionProp"} {
				delete(ex.hooks, h)
			}
			var reads []string
			installJSONReaderContracts(ex, w, tbl, doc, &reads)
			installJSONDocument(ex, tbl, doc)
			var got *StructVal
			var fns []string
			T := w.Type(tn)
			switch tn {
			case "Endpoints":
				delete(ex.hooks, "JSONGetActorEndpoints")
				ex.knownTerms[jGet(parent, StrLit("endpoints"))] = doc
				p := ex.Call(st, w.Func("JSONGetActorEndpoints"), []Value{parent, StrLit("endpoints")}, nil).(*PtrVal)
				got = ex.load(st, p, T, 0).(*StructVal)
				fns = []string{"(Endpoints).MarshalJSON", "JSONGetActorEndpoints"}
			case "Source":
				delete(ex.hooks, "GetAPSource")
				ex.knownTerms[jGet(parent, StrLit("source"))] = doc
				got = ex.Call(st, w.Func("GetAPSource"), []Value{parent}, nil).(*StructVal)
				fns = []string{"(Source).MarshalJSON", "GetAPSource"}
			}
			common := append([]*Term{ex.NoPanic()}, ex.assumes...)
			stT := T.Underlying().(*types.Struct)
			for k := 0; k < stT.NumFields(); k++ {
				// well-formed: a media type is not wrapped in double quotes (the reader trims them)
				if mt, ok := sv.F[k].(*Term); ok && mt.S == SStr && typeName(stT.Field(k).Type()) == "MimeType" {
					common = append(common, Eq(App("strings.Trim", SStr, mt, StrLit("\"")), mt))
				}
			}
			for k := 0; k < stT.NumFields(); k++ {
				f := stT.Field(k)
				c.Add(&Obligation{Name: fmt.Sprintf("%s/field=%s", grp, f.Name()), Group: grp, Common: common,
					Goal: ex.jsonNormEq(st, got.F[k], sv.F[k], f.Type()), Pos: fns[1], Funcs: fns, Replay: jsonReplay("Actor", "", nil)})
			}
			for i, p := range ex.panics {
				c.Add(&Obligation{Name: fmt.Sprintf("%s/nopanic/%s@%s#%d", grp, p.Kind, p.Fn, i), Group: grp + "/nopanic", Common: ex.assumes, Goal: Not(p.C), Pos: p.Pos, Funcs: fns})
			}
			var desc []string
			for _, m := range tbl.Members {
				desc = append(desc, fmt.Sprintf("%s:%s", m.Name, m.Kind))
			}
			c.Notes = appendUnique(c.Notes, fmt.Sprintf("%s writes %v; reads %v", tn, desc, reads))
		})
	}
}

func jsonReplay(tn, field string, ft types.Type) func(map[string]string) string {
	return func(map[string]string) string {
		return fmt.Sprintf(`package activitypub

import (
	"reflect"
	"testing"
	"time"
)

var _ = time.Second

func TestVerifReplay(t *testing.T) {
	iri := func(s string) IRI { return IRI("https://example.com/verif/" + s) }
	emb := func(s string) Item { return &Object{ID: iri(s), Type: NoteType} }
	var samples []reflect.Value
	add := func(v any) { samples = append(samples, reflect.ValueOf(v)) }
	add(iri("a")); add(Item(iri("a"))); add(emb("o")); add(ItemCollection{emb("o")}); add(ItemCollection{iri("a"), emb("o")}); add(Item(ItemCollection{iri("a"), iri("b")}))
	add(NaturalLanguageValues{{Ref: NilLangRef, Value: Content("x")}}); add(NaturalLanguageValues{{Ref: "en", Value: Content("x")}, {Ref: "fr", Value: Content("y")}})
	add(true); add(int64(-7)); add(uint(7)); add(float64(-1.5)); add(float64(12.3456789)); add(float64(-0.00000012)); add(90 * time.Minute); add(-3 * time.Second); add(time.Date(2020, 1, 2, 3, 4, 5, 0, time.UTC))
	add("text"); add(MimeType("text/x")); add(ActivityVocabularyType("Note")); add(LangRef("en")); add(&Endpoints{SharedInbox: iri("shared")}); add(PublicKey{ID: iri("key"), Owner: iri("owner"), PublicKeyPem: "PEM"})
	add(Source{MediaType: "text/x", Content: NaturalLanguageValues{{Ref: NilLangRef, Value: Content("src")}}})
	base := func() reflect.Value {
		x := reflect.New(reflect.TypeOf(%[1]s{})).Elem()
		if f := x.FieldByName("ID"); f.IsValid() { f.Set(reflect.ValueOf(iri("x"))) }
		return x
	}
	typeNames := map[string]ActivityVocabularyType{"Object": NoteType, "Actor": PersonType, "Activity": CreateType, "IntransitiveActivity": TravelType, "Question": QuestionType, "Collection": CollectionType,
		"CollectionPage": CollectionPageType, "OrderedCollection": OrderedCollectionType, "OrderedCollectionPage": OrderedCollectionPageType, "Place": PlaceType, "Profile": ProfileType,
		"Relationship": RelationshipType, "Tombstone": TombstoneType, "Link": LinkType}
	for i := 0; i < base().NumField(); i++ {
		fname := base().Type().Field(i).Name
		if %[2]q != "" && fname != %[2]q {
			continue
		}
		for _, s := range samples {
			x := base()
			if f := x.FieldByName("Type"); f.IsValid() && f.Type() == reflect.TypeOf(ActivityVocabularyType("")) && fname != "Type" {
				f.Set(reflect.ValueOf(typeNames[%[1]q]))
			}
			f := x.Field(i)
			if !s.Type().AssignableTo(f.Type()) {
				continue
			}
			f.Set(s)
			m, ok := x.Interface().(interface{ MarshalJSON() ([]byte, error) })
			if !ok {
				t.Fatalf("no MarshalJSON")
			}
			data, err := m.MarshalJSON()
			if err != nil {
				t.Fatalf("%%s=%%v: encode: %%v", fname, s, err)
			}
			y := reflect.New(x.Type())
			if err := y.Interface().(interface{ UnmarshalJSON([]byte) error }).UnmarshalJSON(data); err != nil {
				t.Errorf("%%s=%%v: wrote %%s, decode: %%v", fname, s, data, err)
				continue
			}
			got := y.Elem().Field(i).Interface()
			want := f.Interface()
			if !verifJSONSame(got, want) {
				t.Errorf("%%s: wrote %%s; read back %%#v, want %%#v", fname, data, got, want)
			}
		}
	}
}

func verifJSONSame(a, b any) bool {
	if ia, ok := a.(Item); ok {
		ib, _ := b.(Item)
		if IsNil(ia) && IsNil(ib) {
			return true
		}
		if ca, ok := ia.(ItemCollection); ok && len(ca) == 1 {
			ia = ca[0]
		}
		if cb, ok := ib.(ItemCollection); ok && len(cb) == 1 {
			ib = cb[0]
		}
		return ItemsEqual(ia, ib)
	}
	if na, ok := a.(NaturalLanguageValues); ok {
		nb := b.(NaturalLanguageValues)
		if len(na) != len(nb) {
			return false
		}
		for i := range na {
			if !na[i].Value.Equals(nb[i].Value) || (len(na) > 1 && na[i].Ref != nb[i].Ref) {
				return false
			}
		}
		return true
	}
	if ta, ok := a.(time.Time); ok {
		return ta.Equal(b.(time.Time))
	}
	if ea, ok := a.(*Endpoints); ok {
		eb := b.(*Endpoints)
		return (ea == nil) == (eb == nil) && (ea == nil || ItemsEqual(ea.SharedInbox, eb.SharedInbox))
	}
	return reflect.DeepEqual(a, b)
}
`, tn, field)
	}
}

func init() { drivers["C01"] = checkC01 }

var jsonTrusted = []string{
	"assumed contract of github.com/valyala/fastjson: Get/Exists/GetStringBytes/GetInt64/GetFloat64/Bool/Type observe the member a correct parser would produce for the text the writer emitted; Get returns the first member of a name",
	"assumed text codec pairs: Time.Format(RFC3339)/Time.UnmarshalText and xsd.Marshal/xsd.Unmarshal are inverse on whole seconds; fmt %d / %t text and strconv.FormatFloat(f, _, -1, 64) text is a JSON number/boolean that parses back to exactly the value (a %f or fixed-precision float is classified lossy and accepted by no reader)",
	"the package's string escaper stringBytes appends one JSON string that decodes to its argument: used by that contract at its call sites and PROVED against it at byte level in this same check (obligations <id>/bytes/stringBytes/..., all input lengths); encoding/json.Marshal of a string does the same (assumed)",
	"induction hypothesis at nested positions: an item / item list / language values / Source / Endpoints / PublicKey member written by the matching leaf writer is read back as the written value by JSONLoadItem, JSONItemsFn, asIRI (absolute IRIs), JSONGetNaturalLanguageField, GetAPSource, JSONGetActorEndpoints, JSONGetPublicKey",
	"IsNil by its contract (C20); C08 views; go/types + go/ssa (x/tools v0.29.0); SMT solvers' unsat answers",
}

var jsonAssume = []string{
	"member-table abstraction: a JSON object is the list of (name, kind, source value, condition) its leaf writers emit; byte-level syntax of the document (commas, braces) is not modelled; the escaping of strings is (stringBytes, byte level)",
	"normal form: unset and empty are identified; instants compare as instants (zone normalised to UTC); IRIs are not the nil-like '-' placeholder; unsigned numbers are non-negative",
	"which member names a structured reader consults is derived by executing its real body on a probe document, not written by hand",
}

func checkC01(w *World, c *Check) {
	c.Trusted = append(c.Trusted, jsonTrusted...)
	c.Assume = append(c.Assume, jsonAssume...)
	guard(c, "C01/bytes", func() { addByteLevel(w, c, "C01") })
	jsonRoundTripObligations(w, c, "C01")
	jsonNestedRoundTrip(w, c, "C01")
	jsonLeafItemReaders(w, c, "C01")
	jsonKeptObligations(w, c, "C01")
	// top-level and nested items: the dispatch of the item decoder (same obligations as C07's JSON part)
	names := []string{""}
	entry := map[string]vocabEntry{"": {Name: "", Family: "object", GoType: "Object"}}
	for _, e := range vocab {
		names = append(names, e.Name)
		entry[e.Name] = e
	}
	jsonDispatchObligations(w, c, "C01", names, entry)
}

// jsonLeafItemReaders: the three item readers against their contract, per JSON shape of the member they read:
// whatever the shape (string, object, array), the member's decoded content is what is returned.
func jsonLeafItemReaders(w *World, c *Check, P string) {
	itemT := w.TPkg.Scope().Lookup("Item").Type()
	iriT := w.Type("IRI")
	for _, rn := range []string{"JSONGetItem", "JSONGetURIItem", "JSONGetItems"} {
		for _, shape := range []string{"string", "object", "array"} {
			rn, shape := rn, shape
			grp := fmt.Sprintf("%s/leaf/%s/shape=%s", P, rn, shape)
			guard(c, grp, func() {
				ex := w.NewExec()
				installIsNilSpecHook(ex)
				ex.hooks["ItemsEqual"] = func(ex *Exec, st *State, f *ssa.Function, a []Value) (Value, bool) {
					asItem := func(v Value) *IfaceVal {
						if iv, ok := v.(*IfaceVal); ok {
							return iv
						}
						return opaqueItem(Fresh("oob", SItem))
					}
					return App("itemsEq", SBool, ex.abstractItem(asItem(a[0])), ex.abstractItem(asItem(a[1]))), true
				}
				dec := func(v *Term) *IfaceVal { return opaqueItem(App("json.decoded", SItem, v)) }
				ex.hooks["JSONLoadItem"] = func(ex *Exec, st *State, f *ssa.Function, a []Value) (Value, bool) {
					return &TupleVal{V: []Value{dec(a[0].(*Term)), ErrNil}}, true
				}
				ex.hooks["asIRI"] = func(ex *Exec, st *State, f *ssa.Function, a []Value) (Value, bool) {
					v := a[0].(*Term)
					return &TupleVal{V: []Value{B2S(App("jstr", SBytes, v)), TTrue}}, true
				}
				doc := Var("doc", jvSort)
				m := jGet(doc, StrLit("p"))
				ex.assume(Neq(doc, jvNil))
				ex.assume(Neq(m, jvNil))
				e0 := Select(App("jarr", ArraySort(jvSort), m), IntLit(0))
				e1 := Select(App("jarr", ArraySort(jvSort), m), IntLit(1))
				switch shape {
				case "string":
					ex.knownTerms[jType(m)] = IntLit(jTypeString)
					ex.assume(Gt(BLen(App("jstr", SBytes, m)), IntLit(0)))
				case "object":
					ex.knownTerms[jType(m)] = IntLit(jTypeObject)
				case "array":
					ex.knownTerms[jType(m)] = IntLit(jTypeArray)
					ex.knownTerms[App("jlen", SInt, m)] = IntLit(2)
					ex.knownTerms[jType(e0)] = IntLit(jTypeObject)
					ex.knownTerms[jType(e1)] = IntLit(jTypeObject)
					ex.assume(Not(App("itemsEq", SBool, App("json.decoded", SItem, e0), App("json.decoded", SItem, e1))))
					ex.assume(Not(App("itemsEq", SBool, App("json.decoded", SItem, e1), App("json.decoded", SItem, e0))))
				}
				// decoded content is a real item
				for _, v := range []*Term{m, e0, e1} {
					d := App("json.decoded", SItem, v)
					ex.assume(Not(ex.isNilSpec(opaqueItem(d))))
				}
				st := newState()
				fn := w.Func(rn)
				res := ex.Call(st, fn, []Value{doc, StrLit("p")}, nil)
				common := append([]*Term{ex.NoPanic()}, ex.assumes...)
				var first *IfaceVal
				var count *Term
				switch r := res.(type) {
				case *IfaceVal: // an item: the item itself, or the list for an array
					first = r
					if shape == "array" {
						ok, sl := ex.assertTo(ex.normIface(r), w.Type("ItemCollection"))
						if sl != nil {
							count = Ite(ok, sliceLen(sl.(*SliceVal)), IntLit(-1))
							if v, ok := ex.readElem(st, sl.(*SliceVal), IntLit(0)).(*IfaceVal); ok {
								first = v
							} else {
								first = &IfaceVal{Alts: []IfaceAlt{{C: TTrue}}}
							}
						}
					}
				case *SliceVal:
					count = sliceLen(r)
					if v, ok := ex.readElem(st, r, IntLit(0)).(*IfaceVal); ok {
						first = v
					} else {
						first = &IfaceVal{Alts: []IfaceAlt{{C: TTrue}}}
					}
				}
				var want *IfaceVal
				wantN := int64(1)
				switch shape {
				case "string":
					want = &IfaceVal{Alts: []IfaceAlt{{C: TTrue, T: iriT, V: B2S(App("jstr", SBytes, m))}}}
				case "object":
					want = dec(m)
				case "array":
					want = dec(e0)
					wantN = 2
				}
				pos := ex.pos(fn.Pos())
				c.Add(&Obligation{Name: grp + "/returns-the-decoded-member", Group: grp, Common: common, Goal: Eq(ex.abstractItem(first), ex.abstractItem(want)), Pos: pos, Funcs: []string{rn}, Replay: jsonShapeReplay})
				if count != nil {
					c.Add(&Obligation{Name: grp + "/count", Group: grp, Common: common, Goal: Eq(count, IntLit(wantN)), Pos: pos, Funcs: []string{rn}, Replay: jsonShapeReplay})
				}
				for i, p := range ex.panics {
					c.Add(&Obligation{Name: fmt.Sprintf("%s/nopanic/%s#%d", grp, p.Kind, i), Group: grp + "/nopanic", Common: ex.assumes, Goal: Not(p.C), Pos: p.Pos, Funcs: []string{rn}})
				}
				_ = itemT
			})
		}
	}
}

func jsonShapeReplay(map[string]string) string {
	return `package activitypub

import "testing"

func TestVerifReplay(t *testing.T) {
	docs := map[string]string{
		"string": "{\"type\":\"Note\",\"audience\":\"https://example.com/verif/a\",\"context\":\"https://example.com/verif/a\",\"url\":\"https://example.com/verif/a\"}",
		"object": "{\"type\":\"Note\",\"audience\":{\"id\":\"https://example.com/verif/a\",\"type\":\"Group\"},\"context\":{\"id\":\"https://example.com/verif/a\",\"type\":\"Group\"},\"url\":{\"id\":\"https://example.com/verif/a\",\"type\":\"Link\"}}",
		"array":  "{\"type\":\"Note\",\"audience\":[{\"id\":\"https://example.com/verif/a\",\"type\":\"Group\"},{\"id\":\"https://example.com/verif/b\",\"type\":\"Group\"}],\"context\":[{\"id\":\"https://example.com/verif/a\",\"type\":\"Group\"},{\"id\":\"https://example.com/verif/b\",\"type\":\"Group\"}],\"url\":[{\"id\":\"https://example.com/verif/a\",\"type\":\"Link\"},{\"id\":\"https://example.com/verif/b\",\"type\":\"Link\"}]}",
	}
	for shape, doc := range docs {
		it, err := UnmarshalJSON([]byte(doc))
		if err != nil || it == nil {
			t.Fatalf("%s: %v %v", shape, it, err)
		}
		o := it.(*Object)
		firstID := func(i Item) IRI {
			if IsNil(i) {
				return ""
			}
			if c, ok := i.(ItemCollection); ok {
				if len(c) == 0 {
					return ""
				}
				i = c[0]
			}
			return i.GetLink()
		}
		if got := firstID(o.Audience); got != "https://example.com/verif/a" {
			t.Errorf("shape %s: audience (JSONGetItems) holds %v", shape, o.Audience)
		}
		if got := firstID(o.Context); got != "https://example.com/verif/a" {
			t.Errorf("shape %s: context (JSONGetItem) holds %v", shape, o.Context)
		}
		if got := firstID(o.URL); got != "https://example.com/verif/a" {
			t.Errorf("shape %s: url (JSONGetURIItem) holds %v", shape, o.URL)
		}
	}
}
`
}

var jsonRepresentativeType = map[string]string{"Object": "Note", "Actor": "Person", "Activity": "Create", "IntransitiveActivity": "Travel", "Question": "Question", "Collection": "Collection",
	"CollectionPage": "CollectionPage", "OrderedCollection": "OrderedCollection", "OrderedCollectionPage": "OrderedCollectionPage", "Place": "Place", "Profile": "Profile",
	"Relationship": "Relationship", "Tombstone": "Tombstone", "Link": "Link"}

// jsonKeptObligations: the decoder throws away a freshly loaded value that IsNotEmpty calls empty; a value with
// any property set must therefore count as not empty.
func jsonKeptObligations(w *World, c *Check, P string) {
	for _, tn := range allStructNames {
		tn := tn
		grp := P + "/" + tn + ".KeptByDecoder"
		guard(c, grp, func() {
			ex := w.NewExec()
			installItemsEqContract(ex)
			st := newState()
			T := w.Type(tn)
			iv, obj, sv := ex.symItemOfType(types.NewPointer(T), "x")
			_ = obj
			stT := T.Underlying().(*types.Struct)
			var hyps []*Term
			if k := fieldIndex(T, "Type"); k >= 0 {
				if tt, ok := sv.F[k].(*Term); ok && tt.S == SStr {
					if tn == "Object" {
						// an embedded object may lack its type (it is then loaded as a plain object)
						hyps = append(hyps, Or(Eq(tt, StrLit("")), Eq(tt, StrLit(jsonRepresentativeType[tn]))))
					} else {
						hyps = append(hyps, Eq(tt, StrLit(jsonRepresentativeType[tn])))
					}
				}
			}
			fn := w.Func("NotEmpty")
			res := ex.Call(st, fn, []Value{iv}, nil).(*Term)
			common := append(append([]*Term{ex.NoPanic()}, hyps...), ex.assumes...)
			for k := 0; k < stT.NumFields(); k++ {
				f := stT.Field(k)
				if f.Name() == "Type" {
					continue
				}
				ne := ex.jsonNonEmpty(sv.F[k])
				if s, ok := sv.F[k].(*StructVal); ok {
					var any []*Term
					for _, fv := range s.F {
						any = append(any, ex.jsonNonEmpty(fv))
					}
					ne = Or(any...)
				}
				if ft, ok := sv.F[k].(*Term); ok && ft.S == SReal {
					ne = Neq(ft, mk("real", "0.0", SReal))
				}
				c.Add(&Obligation{Name: fmt.Sprintf("%s/field=%s", grp, f.Name()), Group: grp, Common: common, Hyps: []*Term{ne}, Goal: res, Pos: ex.pos(fn.Pos()),
					Funcs: []string{"NotEmpty", "JSONLoadItem"}, Replay: jsonKeptReplay(tn, f.Name())})
			}
		})
	}
}

func jsonKeptReplay(tn, field string) func(map[string]string) string {
	return func(map[string]string) string {
		return fmt.Sprintf(`package activitypub

import (
	"reflect"
	"testing"
	"time"
)

func TestVerifReplay(t *testing.T) {
	iri := func(s string) IRI { return IRI("https://example.com/verif/" + s) }
	var samples []reflect.Value
	add := func(v any) { samples = append(samples, reflect.ValueOf(v)) }
	add(iri("a")); add(Item(iri("a"))); add(ItemCollection{iri("a")}); add(NaturalLanguageValues{{Ref: NilLangRef, Value: Content("x")}})
	add(true); add(int64(7)); add(uint(7)); add(float64(1.5)); add(float64(-1.5)); add(90 * time.Minute); add(-3 * time.Second); add(time.Date(2020, 1, 2, 3, 4, 5, 0, time.UTC))
	add("text"); add(MimeType("text/x")); add(ActivityVocabularyType("Note")); add(LangRef("en")); add(&Endpoints{SharedInbox: iri("shared")}); add(PublicKey{ID: iri("key")})
	add(Source{MediaType: "text/x"})
	x := reflect.New(reflect.TypeOf(%[1]s{}))
	if f := x.Elem().FieldByName("Type"); f.IsValid() && f.Kind() == reflect.String && %[1]q != "Object" {
		f.SetString(%[3]q)
	}
	f := x.Elem().FieldByName(%[2]q)
	for _, s := range samples {
		if s.Type().AssignableTo(f.Type()) {
			f.Set(s)
			if !NotEmpty(x.Interface().(Item)) {
				t.Fatalf("a %[1]s whose only property is %[2]s=%%v counts as empty: the JSON decoder returns nil for it", s)
			}
		}
	}
}
`, tn, field, jsonRepresentativeType[tn])
	}
}

// sameValue: semantic equality of a written source value and a field value (TFalse when the shapes differ).
func (ex *Exec) sameValue(st *State, a, b Value, t types.Type) (r *Term) {
	defer func() {
		if recover() != nil {
			r = TFalse
		}
	}()
	switch x := a.(type) {
	case *StructVal:
		if p, ok := b.(*PtrVal); ok {
			// a value written through its pointer
			var cs []*Term
			for _, al := range p.Alts {
				if al.O != nil {
					cs = append(cs, And(al.C, ex.sameValue(st, x, ex.navigate(st, ex.heapGet(st, al.O), al.Path, al.O), x.T)))
				}
			}
			return Or(cs...)
		}
	case *Term:
		if y, ok := b.(*Term); ok && x.S != y.S {
			return TFalse
		}
	case *IfaceVal:
		if y, ok := b.(*SliceVal); ok {
			// a list handed over as an item
			var cs []*Term
			for _, al := range ex.normIface(x).Alts {
				if sl, ok := al.V.(*SliceVal); ok && al.T != nil {
					cs = append(cs, And(al.C, ex.jsonNormEq(st, sl, y, t)))
				}
			}
			return Or(cs...)
		}
	}
	return ex.jsonNormEq(st, a, b, t)
}

// jsonDeclaredTermObligations (C02): every property is written under the term its struct tag declares, with
// the JSON kind its Go type calls for, and no member name is written twice.
func jsonDeclaredTermObligations(w *World, c *Check, P string) {
	for _, tn := range jsonStructs {
		tn := tn
		grp := P + "/" + tn + ".WritesDeclaredTerms"
		guard(c, grp, func() {
			ex, st, sv, tbl := jsonWriterTable(w, tn)
			T := w.Type(tn)
			stT := T.Underlying().(*types.Struct)
			common := append([]*Term{ex.NoPanic()}, ex.assumes...)
			for k := 0; k < stT.NumFields(); k++ {
				if x, ok := sv.F[k].(*Term); ok && x.S == SStr && (typeName(stT.Field(k).Type()) == "IRI" || typeName(stT.Field(k).Type()) == "ID") {
					common = append(common, Neq(Fold(x), StrLit("-")))
				}
			}
			pos := ex.pos(w.Method(tn, "MarshalJSON").Pos())
			fns := []string{"(" + tn + ").MarshalJSON"}
			declared := map[string]bool{}
			for k := 0; k < stT.NumFields(); k++ {
				f := stT.Field(k)
				tag := jsonTag(stT, k)
				if tag == "" {
					continue
				}
				declared[tag] = true
				declared[tag+"Map"] = true
				var under []*Term
				for _, m := range tbl.Members {
					if m.Name == tag || (m.Kind == "nlv" && m.Name == tag+"Map") {
						under = append(under, And(m.Cond, ex.sameValue(st, m.Src, sv.F[k], f.Type())))
					}
				}
				ne := ex.jsonNonEmpty(sv.F[k])
				if s, ok := sv.F[k].(*StructVal); ok {
					var any []*Term
					for _, fv := range s.F {
						any = append(any, ex.jsonNonEmpty(fv))
					}
					ne = Or(any...)
				}
				if ft, ok := sv.F[k].(*Term); ok && ft.S == SReal {
					ne = Neq(ft, mk("real", "0.0", SReal))
				}
				c.Add(&Obligation{Name: fmt.Sprintf("%s/field=%s/under=%s", grp, f.Name(), tag), Group: grp, Common: common, Hyps: []*Term{ne}, Goal: Or(under...), Pos: pos, Funcs: fns, Replay: jsonReplay(tn, f.Name(), f.Type())})
				// JSON kind by Go type
				want := map[Kind][]string{KBool: {"bool"}, KInt: {"int", "duration"}, KFloat: {"float"}, KTime: {"time"}}
				if kinds, ok := want[classify(f.Type())]; ok {
					for _, m := range tbl.Members {
						if m.Name != tag {
							continue
						}
						okk := false
						for _, kk := range kinds {
							okk = okk || m.Kind == kk
						}
						c.Add(&Obligation{Name: fmt.Sprintf("%s/field=%s/json-kind", grp, f.Name()), Group: grp, Common: common, Goal: BoolLit(okk), Pos: m.Pos, Funcs: fns,
							Notes: []string{"written as " + m.Kind + " via " + m.Via}, Replay: jsonReplay(tn, f.Name(), f.Type())})
					}
				}
			}
			byName := map[string][]*jMember{}
			var names []string
			for _, m := range tbl.Members {
				if _, ok := byName[m.Name]; !ok {
					names = append(names, m.Name)
				}
				byName[m.Name] = append(byName[m.Name], m)
				// a string-valued member must come out of a complete JSON string escaper
				switch m.Kind {
				case "string", "iri", "type", "mime":
					okE := m.Via == "stringBytes" || m.Via == "encoding/json.Marshal"
					if !okE {
						func() {
							defer func() { recover() }()
							if f := w.lookupFn(m.Via); f != nil {
								okE = reachesFn(f, "stringBytes", map[*ssa.Function]bool{})
							}
						}()
					}
					c.Add(&Obligation{Name: fmt.Sprintf("%s/member=%s/string-escaped", grp, m.Name), Group: grp, Common: common, Goal: BoolLit(okE), Pos: m.Pos, Funcs: fns,
						Notes: []string{"written via " + m.Via}, Replay: jsonInjectionReplay(tn)})
				}
			}
			sort.Strings(names)
			for _, n := range names {
				ms := byName[n]
				var both []*Term
				for i := range ms {
					for j := i + 1; j < len(ms); j++ {
						both = append(both, And(ms[i].Cond, ms[j].Cond))
					}
				}
				c.Add(&Obligation{Name: fmt.Sprintf("%s/member=%s/written-once", grp, n), Group: grp, Common: common, Goal: Not(Or(both...)), Pos: ms[0].Pos, Funcs: fns, Replay: jsonReplay(tn, "", nil)})
				c.Add(&Obligation{Name: fmt.Sprintf("%s/member=%s/is-a-declared-term", grp, n), Group: grp, Common: common, Goal: BoolLit(declared[n]), Pos: ms[0].Pos, Funcs: fns})
			}
		})
	}
}

// jsonReadsDeclaredTermObligations (C05): on a document that holds, under each term the struct declares, a value
// of the shape that term admits, the loader fills every field from its own term and from nothing else.
func jsonReadsDeclaredTermObligations(w *World, c *Check, P string) {
	for _, tn := range jsonStructs {
		for _, variant := range []string{"plain", "language-maps"} {
			tn, variant := tn, variant
			grp := fmt.Sprintf("%s/%s.ReadsDeclaredTerms/%s", P, tn, variant)
			guard(c, grp, func() {
				ex := w.NewExec()
				installIsNilSpecHook(ex)
				st := newState()
				T := w.Type(tn)
				stT := T.Underlying().(*types.Struct)
				want := ex.symValue(T, varNamer("doc"), false).(*StructVal)
				tbl := &jTable{}
				hasNLV := false
				for k := 0; k < stT.NumFields(); k++ {
					tag := jsonTag(stT, k)
					if tag == "" {
						continue
					}
					f := stT.Field(k)
					m := &jMember{Name: tag, Src: want.F[k], Cond: ex.jsonNonEmpty(want.F[k]), Via: "document"}
					switch classify(f.Type()) {
					case KIface:
						m.Kind = "item"
					case KSlice:
						if typeName(f.Type()) == "NaturalLanguageValues" {
							m.Kind = "nlv"
							hasNLV = true
							if variant == "language-maps" {
								m.Name = tag + "Map"
							}
						} else {
							m.Kind = "items"
						}
					case KStr:
						m.Kind = "string"
						if typeName(f.Type()) == "IRI" || typeName(f.Type()) == "ID" {
							m.Kind = "iri"
						}
					case KBool:
						m.Kind = "bool"
					case KInt:
						m.Kind = "int"
						if typeName(f.Type()) == "Duration" || strings.HasSuffix(f.Type().String(), "time.Duration") {
							m.Kind = "duration"
							m.Text = App("xsd.duration", SBytes, want.F[k].(*Term))
						}
					case KFloat:
						m.Kind = "float"
					case KTime:
						m.Kind = "time"
						m.Text = App("time.format", SBytes, want.F[k].(*Term), StrLit("2006-01-02T15:04:05Z07:00"))
					case KPtr:
						m.Kind = "endpoints"
					case KStruct:
						if typeName(f.Type()) == "Source" {
							m.Kind = "source"
							sv := want.F[k].(*StructVal)
							m.Cond = Or(ex.jsonNonEmpty(sv.F[0]), ex.jsonNonEmpty(sv.F[1]))
						} else {
							m.Kind = "pubkey"
							m.Cond = TTrue
						}
					}
					tbl.Members = append(tbl.Members, m)
				}
				if variant == "language-maps" && !hasNLV {
					return
				}
				doc := Var("doc", jvSort)
				ex.assume(Neq(doc, jvNil))
				var reads []string
				installJSONReaderContracts(ex, w, tbl, doc, &reads)
				installJSONDocument(ex, tbl, doc)
				yo := ex.newObj("y", OCell, T)
				st.heap[yo] = ex.zeroValue(T)
				yp := &PtrVal{Alts: []PtrAlt{{C: TTrue, O: yo}}}
				loader := w.Func("JSONLoad" + tn)
				err2 := ex.Call(st, loader, []Value{doc, yp}, nil).(*Term)
				y := ex.heapGet(st, yo).(*StructVal)
				common := append([]*Term{ex.NoPanic()}, ex.assumes...)
				var wf func(v Value, t types.Type)
				wf = func(v Value, t types.Type) {
					switch x := v.(type) {
					case *Term:
						if x.S == SStr && (typeName(t) == "IRI" || typeName(t) == "ID") {
							common = append(common, Neq(Fold(x), StrLit("-")))
						}
						if x.S == SInt && strings.HasPrefix(t.Underlying().String(), "uint") {
							common = append(common, Ge(x, IntLit(0)))
						}
					case *StructVal:
						sT := x.T.Underlying().(*types.Struct)
						for i := range x.F {
							wf(x.F[i], sT.Field(i).Type())
						}
					}
				}
				wf(want, T)
				pos := ex.pos(loader.Pos())
				fns := []string{"JSONLoad" + tn}
				for k := 0; k < stT.NumFields(); k++ {
					f := stT.Field(k)
					if jsonTag(stT, k) == "" {
						continue
					}
					if variant == "language-maps" && typeName(f.Type()) != "NaturalLanguageValues" {
						continue
					}
					c.Add(&Obligation{Name: fmt.Sprintf("%s/field=%s", grp, f.Name()), Group: grp, Common: common, Hyps: []*Term{Eq(err2, ErrNil)},
						Goal: ex.jsonNormEq(st, y.F[k], want.F[k], f.Type()), Pos: pos, Funcs: fns, Replay: jsonReplay(tn, f.Name(), f.Type())})
				}
				c.Add(&Obligation{Name: grp + "/decode-ok", Group: grp, Common: common, Goal: Eq(err2, ErrNil), Pos: pos, Funcs: fns})
			})
		}
	}
}

func init() {
	drivers["C02"] = func(w *World, c *Check) {
		c.Trusted = append(c.Trusted, jsonTrusted...)
		c.Assume = append(c.Assume, jsonAssume...)
		c.Assume = append(c.Assume, "the declared term of a field is its jsonld struct tag; 'complete escaper' is a static call-path fact (the leaf writer reaches stringBytes or encoding/json)")
		guard(c, "C02/bytes", func() { addByteLevel(w, c, "C02") })
		jsonDeclaredTermObligations(w, c, "C02")
	}
	drivers["C05"] = func(w *World, c *Check) {
		c.Trusted = append(c.Trusted, jsonTrusted...)
		c.Assume = append(c.Assume, jsonAssume...)
		c.Assume = append(c.Assume, "the independent document is described by the struct-tag table: under each declared term a member of the kind that term admits, with an arbitrary value")
		guard(c, "C05/bytes", func() { addByteLevel(w, c, "C05") })
		jsonReadsDeclaredTermObligations(w, c, "C05")
		jsonLeafItemReaders(w, c, "C05")
		// "a value of the type the document names": the dispatch of the item decoder per vocabulary name (as in C07)
		names := []string{""}
		entry := map[string]vocabEntry{"": {Name: "", Family: "object", GoType: "Object"}}
		for _, e := range vocab {
			names = append(names, e.Name)
			entry[e.Name] = e
		}
		jsonDispatchObligations(w, c, "C05", names, entry)
	}
}

// reachesFn: does fn (transitively, through static calls inside the package) call the function named target?
func reachesFn(fn *ssa.Function, target string, seen map[*ssa.Function]bool) bool {
	if seen[fn] {
		return false
	}
	seen[fn] = true
	for _, b := range fn.Blocks {
		for _, ins := range b.Instrs {
			ci, ok := ins.(ssa.CallInstruction)
			if !ok {
				continue
			}
			callee := ci.Common().StaticCallee()
			if callee == nil {
				continue
			}
			if callee.Name() == target {
				return true
			}
			if callee.Pkg != nil && callee.Pkg.Pkg.Path() == pkgPath && reachesFn(callee, target, seen) {
				return true
			}
		}
	}
	return false
}

func jsonInjectionReplay(tn string) func(map[string]string) string {
	return func(map[string]string) string {
		return fmt.Sprintf(`package activitypub

import (
	"encoding/json"
	"reflect"
	"testing"
)

func TestVerifReplay(t *testing.T) {
	nasty := []string{"a\"b", "a\\", "a\\\"b", "line\nbreak", "tab\there", "x\",\"injected\":\"1", "\x01"}
	x := reflect.New(reflect.TypeOf(%[1]s{})).Elem()
	for i := 0; i < x.NumField(); i++ {
		f := x.Field(i)
		if f.Kind() != reflect.String {
			continue
		}
		for _, s := range nasty {
			y := reflect.New(x.Type()).Elem()
			if id := y.FieldByName("ID"); id.IsValid() {
				id.SetString("https://example.com/verif/x")
			}
			y.Field(i).SetString(s)
			data, err := y.Interface().(interface{ MarshalJSON() ([]byte, error) }).MarshalJSON()
			if err != nil || len(data) == 0 {
				continue
			}
			var m map[string]any
			if err := json.Unmarshal(data, &m); err != nil {
				t.Errorf("%%s=%%q: the bytes written are not valid JSON: %%s (%%v)", x.Type().Field(i).Name, s, data, err)
				continue
			}
			if _, ok := m["injected"]; ok {
				t.Errorf("%%s=%%q: the text added a member: %%s", x.Type().Field(i).Name, s, data)
			}
			found := false
			for _, v := range m {
				if vs, ok := v.(string); ok && vs == s {
					found = true
				}
			}
			if !found {
				t.Errorf("%%s=%%q: no member decodes back to the text: %%s", x.Type().Field(i).Name, s, data)
			}
		}
	}
}
`, tn)
	}
}
