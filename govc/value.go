package main

// Symbolic values of the executor.

import (
	"fmt"
	"go/types"
	"strings"

	"golang.org/x/tools/go/ssa"
)

type Value interface{}

type StructVal struct {
	T types.Type
	F []Value
}

type TupleVal struct{ V []Value }

type ObjKind int

const (
	OCell    ObjKind = iota // holds one Value of type T
	OConcArr                // *ArrVal with concrete length
	OSymArr                 // lifted Value: leaves are SMT arrays indexed by Int
)

type Obj struct {
	id       int
	name     string
	kind     ObjKind
	T        types.Type // cell content type / element type for arrays
	init     func() Value
	owner    int // activation serial that allocated it (0 = input/global)
	fresh    bool
	readonly bool // view of an immutable byte-string term: stores are outside the subset
}

func (o *Obj) String() string { return fmt.Sprintf("obj%d(%s)", o.id, o.name) }

type ArrVal struct{ E []Value }

type PathElem struct {
	Field int
	Index *Term // non-nil => array/slice element
}

type PtrAlt struct {
	C    *Term
	O    *Obj // nil => nil pointer
	Path []PathElem
	// Opaque external pointer (e.g. *fastjson.Value) is represented as a Term, not PtrVal.
}

type PtrVal struct {
	Alts []PtrAlt
}

type IfaceAlt struct {
	C      *Term
	T      types.Type // dynamic type; nil => nil interface (when Opaque == nil)
	V      Value
	Opaque *Term // sort Item: dynamic type unknown
}

type IfaceVal struct{ Alts []IfaceAlt }

type SliceAlt struct {
	C        *Term
	O        *Obj // nil => nil slice
	Off, Len *Term
}

type SliceVal struct {
	Elem types.Type
	Alts []SliceAlt
}

type FuncAlt struct {
	C      *Term
	Fn     *ssa.Function // nil with Opaque==nil => nil func
	Bind   []Value
	Opaque *Term
	Native func(ex *Exec, st *State, args []Value) Value
}

type FuncVal struct{ Alts []FuncAlt }

// MapVal models map[string]X with X scalar: an SMT array from Str to X plus presence array.
type MapAlt struct {
	C *Term
	O *Obj // nil => nil map; cell content is *MapContent
}
type MapVal struct {
	K, V types.Type
	Alts []MapAlt
}
type MapContent struct {
	Keys []*Term // keys written so far (syntactic), for evidence/debug
	Has  func(k *Term) *Term
	Get  func(k *Term) Value
	// functional association list: later entries shadow earlier ones
	Ents []MapEnt
	Base *MapBase
}
type MapEnt struct {
	C   *Term // guard under which this entry was written
	K   *Term
	V   Value
	Del bool
}
type MapBase struct { // symbolic initial content (nil => empty)
	Has func(k *Term) *Term
	Get func(k *Term) Value
}

// ---------- type classification ----------

type Kind int

const (
	KBool Kind = iota
	KInt
	KFloat
	KStr
	KBytes
	KTime
	KErr
	KOpaque
	KStruct
	KPtr
	KIface
	KSlice
	KMap
	KFunc
	KArray
	KTuple
	KUnsafePtr
)

const pkgPath = "github.com/go-ap/activitypub"

func isLocalNamed(t types.Type) bool {
	if n, ok := t.(*types.Named); ok {
		return n.Obj().Pkg() != nil && n.Obj().Pkg().Path() == pkgPath
	}
	if _, ok := t.(*types.Alias); ok {
		return isLocalNamed(types.Unalias(t))
	}
	return false
}

func typeName(t types.Type) string {
	return types.TypeString(t, func(p *types.Package) string {
		if p.Path() == pkgPath {
			return ""
		}
		return p.Name()
	})
}

func classify(t types.Type) Kind {
	t = types.Unalias(t)
	if n, ok := t.(*types.Named); ok {
		p := ""
		if n.Obj().Pkg() != nil {
			p = n.Obj().Pkg().Path()
		}
		full := p + "." + n.Obj().Name()
		switch full {
		case "time.Time":
			return KTime
		case "time.Duration":
			return KInt
		case ".error":
			return KErr
		case "strings.Builder", "bytes.Buffer":
			return KBytes
		}
		if p != pkgPath && p != "" {
			switch u := n.Underlying().(type) {
			case *types.Struct:
				return KOpaque
			case *types.Interface:
				if full == "reflect.Type" {
					return KOpaque
				}
				return KIface
			case *types.Basic, *types.Slice, *types.Map, *types.Signature:
				_ = u
				// fallthrough to underlying handling (e.g. url.Values, reflect.Kind)
				if _, isMap := u.(*types.Map); isMap {
					return KOpaque
				}
			default:
				return KOpaque
			}
		}
	}
	switch u := t.Underlying().(type) {
	case *types.Basic:
		switch {
		case u.Kind() == types.UnsafePointer:
			return KUnsafePtr
		case u.Info()&types.IsBoolean != 0:
			return KBool
		case u.Info()&types.IsInteger != 0:
			return KInt
		case u.Info()&types.IsFloat != 0:
			return KFloat
		case u.Info()&types.IsString != 0:
			return KStr
		case u.Kind() == types.UntypedNil:
			return KIface
		}
	case *types.Struct:
		return KStruct
	case *types.Pointer:
		if classify(u.Elem()) == KOpaque {
			return KOpaque
		}
		return KPtr
	case *types.Interface:
		if types.Identical(t, types.Universe.Lookup("error").Type()) {
			return KErr
		}
		return KIface
	case *types.Slice:
		if b, ok := u.Elem().Underlying().(*types.Basic); ok && (b.Kind() == types.Byte || b.Kind() == types.Uint8) {
			return KBytes
		}
		return KSlice
	case *types.Map:
		return KMap
	case *types.Signature:
		return KFunc
	case *types.Array:
		return KArray
	case *types.Tuple:
		return KTuple
	}
	panic(unsupported("type " + t.String()))
}

func opaqueSort(t types.Type) Sort {
	s := typeName(t)
	r := strings.NewReplacer("*", "P_", ".", "_", "[", "_", "]", "_", " ", "_", "/", "_", "{", "_", "}", "_", "(", "_", ")", "_", ",", "_")
	return Sort("O_" + r.Replace(s))
}

func sortOf(t types.Type) Sort {
	switch classify(t) {
	case KBool:
		return SBool
	case KInt:
		return SInt
	case KFloat:
		return SReal
	case KStr:
		return SStr
	case KBytes:
		return SBytes
	case KTime:
		return STime
	case KErr:
		return SErr
	case KIface:
		return SItem
	case KOpaque:
		return opaqueSort(t)
	case KFunc:
		return SFunc
	case KUnsafePtr:
		return Sort("O_unsafe")
	}
	panic(unsupported("no scalar sort for " + t.String()))
}

func isScalarKind(k Kind) bool {
	switch k {
	case KBool, KInt, KFloat, KStr, KBytes, KTime, KErr, KOpaque:
		return true
	}
	return false
}

type Unsupported struct{ Msg string }

var curExec *Exec

func unsupported(msg string) *Unsupported {
	if curExec != nil && len(curExec.stack) > 0 {
		msg += " [in"
		n := len(curExec.stack)
		for i := n - 1; i >= 0 && i >= n-4; i-- {
			msg += " " + fnName(curExec.stack[i])
		}
		msg += "]"
	}
	return &Unsupported{msg}
}
func (u *Unsupported) Error() string { return "outside subset: " + u.Msg }

// ---------- well-known literals ----------

var (
	BytesNil = Lit(SBytes, "\x00<nil>")
	ErrNil   = Lit(SErr, "nil")
	TimeZero = Lit(STime, "zero")
	TagSort  = Sort("Tag")
	TagNil   = Lit(Sort("Tag"), "nil")
)

func TagOf(t types.Type) *Term { return Lit(TagSort, typeName(t)) }
func tagOfItem(x *Term) *Term  { return App("tagOf", TagSort, x) }

func SLenRaw(s *Term) *Term {
	if s.Op == "lit" {
		return IntLit(int64(len(s.Name)))
	}
	if s.Op == "app" && s.Name == "b2s" {
		return BLen(s.Args[0])
	}
	if s.Op == "ite" {
		return Ite(s.Args[0], SLen(s.Args[1]), SLen(s.Args[2]))
	}
	return App("slen", SInt, s)
}
func BLenRaw(b *Term) *Term {
	if b == BytesNil {
		return IntLit(0)
	}
	if b.Op == "lit" {
		return IntLit(int64(len(b.Name)))
	}
	if b.Op == "app" && b.Name == "s2b" {
		return SLen(b.Args[0])
	}
	if b.Op == "app" && b.Name == "bcat" {
		return Add(BLen(b.Args[0]), BLen(b.Args[1]))
	}
	if b.Op == "ite" {
		return Ite(b.Args[0], BLen(b.Args[1]), BLen(b.Args[2]))
	}
	return App("blen", SInt, b)
}
func S2B(s *Term) *Term {
	if s.Op == "lit" {
		return BytesLit(s.Name)
	}
	if s.Op == "app" && s.Name == "b2s" && false {
		return s.Args[0] // not exact for nil-ness; keep UF
	}
	return App("s2b", SBytes, s)
}
func B2SRaw(b *Term) *Term {
	if b == BytesNil {
		return StrLit("")
	}
	if b.Op == "lit" {
		return StrLit(b.Name)
	}
	if b.Op == "app" && b.Name == "s2b" {
		return b.Args[0]
	}
	if b.Op == "ite" {
		return Ite(b.Args[0], B2S(b.Args[1]), B2S(b.Args[2]))
	}
	return App("b2s", SStr, b)
}
func BCat(a, b *Term) *Term {
	if BLen(b) == IntLit(0) && b != BytesNil && a != BytesNil {
		return a
	}
	if a == BytesNil || a == BytesLit("") {
		if b == BytesNil {
			return a
		}
		if b.Op == "lit" || b.Op == "app" || b.Op == "var" {
			return b
		}
	}
	if a.Op == "lit" && b.Op == "lit" && a != BytesNil && b != BytesNil {
		return BytesLit(a.Name + b.Name)
	}
	// right-associate literal tails: bcat(bcat(x, "a"), "b") = bcat(x,"ab")
	if a.Op == "app" && a.Name == "bcat" && a.Args[1].Op == "lit" && b.Op == "lit" && b != BytesNil {
		return BCat(a.Args[0], BytesLit(a.Args[1].Name+b.Name))
	}
	return App("bcat", SBytes, a, b)
}
func SCat(a, b *Term) *Term {
	if a.Op == "lit" && b.Op == "lit" {
		return StrLit(a.Name + b.Name)
	}
	if a == StrLit("") {
		return b
	}
	if b == StrLit("") {
		return a
	}
	return App("scat", SStr, a, b)
}
func FoldRaw(s *Term) *Term {
	if s.Op == "lit" {
		return StrLit(strings.ToLower(s.Name))
	}
	if s.Op == "ite" {
		return Ite(s.Args[0], Fold(s.Args[1]), Fold(s.Args[2]))
	}
	return App("fold", SStr, s)
}
func EqFold(a, b *Term) *Term { return Eq(Fold(a), Fold(b)) }
func InstRaw(t *Term) *Term {
	if t == TimeZero {
		return IntLit(0)
	}
	if t.Op == "ite" {
		return Ite(t.Args[0], Inst(t.Args[1]), Inst(t.Args[2]))
	}
	return App("inst", SInt, t)
}

var memoT = map[string]map[*Term]*Term{}

func memo1(name string, f func(*Term) *Term, t *Term) *Term {
	m := memoT[name]
	if m == nil {
		m = map[*Term]*Term{}
		memoT[name] = m
	}
	if r, ok := m[t]; ok {
		return r
	}
	r := f(t)
	m[t] = r
	return r
}
func SLen(s *Term) *Term { return memo1("slen", SLenRaw, s) }
func BLen(b *Term) *Term { return memo1("blen", BLenRaw, b) }
func B2S(b *Term) *Term  { return memo1("b2s", B2SRaw, b) }
func Fold(s *Term) *Term { return memo1("fold", FoldRaw, s) }
func Inst(t *Term) *Term { return memo1("inst", InstRaw, t) }

// theoryAxioms instantiates the small ground theories on the terms that occur.
func theoryAxioms(all []*Term) []*Term {
	var ax []*Term
	empty := StrLit("")
	// literal facts: connect theory functions applied to literals (reachable through equalities
	// with variables) with their computed values
	used := map[string]bool{}
	for _, t := range all {
		if t.Op == "app" {
			used[t.Name] = true
		}
	}
	for _, t := range all {
		if t.Op != "lit" {
			continue
		}
		raw := func(fn string, s Sort) *Term { return mk("app", fn, s, t) }
		switch t.S {
		case SStr:
			if used["slen"] {
				ax = append(ax, Eq(raw("slen", SInt), SLen(t)))
			}
			if used["fold"] {
				ax = append(ax, Eq(raw("fold", SStr), Fold(t)))
			}
			if used["s2b"] {
				ax = append(ax, Eq(raw("s2b", SBytes), S2B(t)))
			}
		case SBytes:
			if used["blen"] {
				ax = append(ax, Eq(raw("blen", SInt), BLen(t)))
			}
			if used["b2s"] {
				ax = append(ax, Eq(raw("b2s", SStr), B2S(t)))
			}
		case STime:
			if used["inst"] && t == TimeZero {
				ax = append(ax, Eq(raw("inst", SInt), IntLit(0)))
			}
		}
	}
	for _, t := range all {
		if t.open {
			continue
		}
		if t.Op != "app" {
			continue
		}
		switch t.Name {
		case "tagOf":
			// the nil interface value is unique
			nilItem := Var("nilItem", SItem)
			ax = append(ax, Eq(mk("app", "tagOf", TagSort, nilItem), TagNil), Implies(Eq(t, TagNil), Eq(t.Args[0], nilItem)))
		case "slen":
			ax = append(ax, Ge(t, IntLit(0)), Iff(Eq(t, IntLit(0)), Eq(t.Args[0], empty)))
		case "blen":
			ax = append(ax, Ge(t, IntLit(0)),
				Iff(Eq(t, IntLit(0)), Or(Eq(t.Args[0], BytesNil), Eq(t.Args[0], BytesLit("")))))
		case "fold":
			ax = append(ax, Iff(Eq(t, empty), Eq(t.Args[0], empty)), Eq(Fold(t), t))
		case "s2b":
			ax = append(ax, Eq(App("b2s", SStr, t), t.Args[0]), Neq(t, BytesNil))
		case "b2s":
			ax = append(ax, Eq(App("slen", SInt, t), BLen(t.Args[0])))
		case "bcat":
			ax = append(ax, Eq(App("blen", SInt, t), Add(BLen(t.Args[0]), BLen(t.Args[1]))))
		case "scat":
			ax = append(ax, Eq(App("slen", SInt, t), Add(SLen(t.Args[0]), SLen(t.Args[1]))))
		case "sslice":
			// the full slice is the string itself
			ax = append(ax, Implies(And(Eq(t.Args[1], IntLit(0)), Eq(t.Args[2], SLen(t.Args[0]))), Eq(t, t.Args[0])))
		case "bslice":
			ax = append(ax, Implies(And(Eq(t.Args[1], IntLit(0)), Eq(t.Args[2], BLen(t.Args[0])), Neq(t.Args[0], BytesNil)), Eq(t, t.Args[0])))
		}
	}
	return ax
}

// ---------- zero / symbolic value construction ----------

type Namer func(leaf string, s Sort) *Term

func varNamer(prefix string) Namer {
	return func(l string, s Sort) *Term { return Var(prefix+l, s) }
}
func ufNamer(prefix string, args ...*Term) Namer {
	return func(l string, s Sort) *Term { return App(prefix+l, s, args...) }
}
func subNamer(nm Namer, field string) Namer {
	return func(l string, s Sort) *Term { return nm(field+l, s) }
}

func (ex *Exec) zeroValue(t types.Type) Value {
	switch classify(t) {
	case KBool:
		return TFalse
	case KInt:
		return IntLit(0)
	case KFloat:
		return mk("real", "0.0", SReal)
	case KStr:
		return StrLit("")
	case KBytes:
		return BytesNil
	case KTime:
		return TimeZero
	case KErr:
		return ErrNil
	case KOpaque, KUnsafePtr:
		return Lit(sortOf(t), "zero")
	case KStruct:
		st := t.Underlying().(*types.Struct)
		sv := &StructVal{T: t, F: make([]Value, st.NumFields())}
		for i := range sv.F {
			sv.F[i] = ex.zeroValue(st.Field(i).Type())
		}
		return sv
	case KPtr:
		return &PtrVal{Alts: []PtrAlt{{C: TTrue}}}
	case KIface:
		return &IfaceVal{Alts: []IfaceAlt{{C: TTrue}}}
	case KSlice:
		return &SliceVal{Elem: t.Underlying().(*types.Slice).Elem(), Alts: []SliceAlt{{C: TTrue, Off: IntLit(0), Len: IntLit(0)}}}
	case KMap:
		m := t.Underlying().(*types.Map)
		return &MapVal{K: m.Key(), V: m.Elem(), Alts: []MapAlt{{C: TTrue}}}
	case KFunc:
		return &FuncVal{Alts: []FuncAlt{{C: TTrue}}}
	case KArray:
		a := t.Underlying().(*types.Array)
		av := &ArrVal{E: make([]Value, a.Len())}
		for i := range av.E {
			av.E[i] = ex.zeroValue(a.Elem())
		}
		return av
	}
	panic(unsupported("zero value of " + t.String()))
}

// symValue builds an unconstrained symbolic value of type t whose leaves are named by nm.
// lift>0 means leaves are arrays (used for symbolic slice backing stores).
func (ex *Exec) symValue(t types.Type, nm Namer, lift bool) Value {
	k := classify(t)
	if isScalarKind(k) {
		s := sortOf(t)
		if lift {
			return nm("", ArraySort(s))
		}
		v := nm("", s)
		if k == KInt {
			if b, ok := t.Underlying().(*types.Basic); ok && b.Info()&types.IsUnsigned != 0 {
				ex.assume(Ge(v, IntLit(0)))
			}
		}
		return v
	}
	switch k {
	case KFloat:
		if lift {
			return nm("", ArraySort(SReal))
		}
		return nm("", SReal)
	case KStruct:
		st := t.Underlying().(*types.Struct)
		sv := &StructVal{T: t, F: make([]Value, st.NumFields())}
		for i := range sv.F {
			sv.F[i] = ex.symValue(st.Field(i).Type(), subNamer(nm, "."+st.Field(i).Name()), lift)
		}
		return sv
	case KIface:
		if lift {
			return nm("", ArraySort(SItem))
		}
		return &IfaceVal{Alts: []IfaceAlt{{C: TTrue, Opaque: nm("", SItem)}}}
	}
	if lift {
		panic(unsupported("symbolic slice of " + t.String()))
	}
	switch k {
	case KPtr:
		el := t.Underlying().(*types.Pointer).Elem()
		isnil := nm("#nil", SBool)
		o := ex.newObj("sym:"+typeName(t), OCell, el)
		o.init = func() Value { return ex.symValue(el, subNamer(nm, "->"), false) }
		return &PtrVal{Alts: []PtrAlt{{C: isnil}, {C: Not(isnil), O: o}}}
	case KSlice:
		el := t.Underlying().(*types.Slice).Elem()
		isnil := nm("#nil", SBool)
		ln := nm("#len", SInt)
		ex.assume(Ge(ln, IntLit(0)))
		ex.assume(Implies(isnil, Eq(ln, IntLit(0))))
		o := ex.newObj("symarr:"+typeName(t), OSymArr, el)
		o.init = func() Value { return ex.symValue(el, subNamer(nm, "[]"), true) }
		return &SliceVal{Elem: el, Alts: []SliceAlt{{C: isnil, Off: IntLit(0), Len: IntLit(0)}, {C: Not(isnil), O: o, Off: IntLit(0), Len: ln}}}
	case KFunc:
		return &FuncVal{Alts: []FuncAlt{{C: TTrue, Opaque: nm("", SFunc)}}}
	case KMap:
		m := t.Underlying().(*types.Map)
		isnil := nm("#nil", SBool)
		o := ex.newObj("symmap:"+typeName(t), OCell, t)
		vt := m.Elem()
		o.init = func() Value {
			return &MapContent{Base: &MapBase{
				Has: func(k *Term) *Term { return App(nm("#has", SBool).Name, SBool, k) },
				Get: func(k *Term) Value {
					return ex.symValue(vt, func(l string, s Sort) *Term { return App(nm("#get"+l, s).Name, s, k) }, false)
				},
			}}
		}
		return &MapVal{K: m.Key(), V: m.Elem(), Alts: []MapAlt{{C: isnil}, {C: Not(isnil), O: o}}}
	}
	panic(unsupported("symbolic value of " + t.String()))
}

// ---------- merge ----------

func (ex *Exec) merge(c *Term, a, b Value) Value {
	if c == TTrue {
		return a
	}
	if c == TFalse {
		return b
	}
	if a == nil {
		return b
	}
	if b == nil {
		return a
	}
	if _, ok := a.(*oobVal); ok {
		return b
	}
	if _, ok := b.(*oobVal); ok {
		return a
	}
	switch x := a.(type) {
	case *Term:
		y, ok := b.(*Term)
		if !ok {
			panic(fmt.Sprintf("merge kind mismatch: %T vs %T", a, b))
		}
		if x == y {
			return x
		}
		return Ite(c, x, y)
	case *StructVal:
		y := b.(*StructVal)
		if x == y {
			return x
		}
		n := len(x.F)
		if len(y.F) < n {
			n = len(y.F)
		}
		r := &StructVal{T: x.T, F: make([]Value, n)}
		same := true
		for i := 0; i < n; i++ {
			r.F[i] = ex.merge(c, x.F[i], y.F[i])
			if r.F[i] != x.F[i] {
				same = false
			}
		}
		if same && len(x.F) == n {
			return x
		}
		return r
	case *TupleVal:
		y := b.(*TupleVal)
		r := &TupleVal{V: make([]Value, len(x.V))}
		for i := range x.V {
			r.V[i] = ex.merge(c, x.V[i], y.V[i])
		}
		return r
	case *ArrVal:
		y := b.(*ArrVal)
		if x == y {
			return x
		}
		if len(x.E) != len(y.E) {
			panic(unsupported("merge of arrays with different lengths"))
		}
		r := &ArrVal{E: make([]Value, len(x.E))}
		for i := range x.E {
			r.E[i] = ex.merge(c, x.E[i], y.E[i])
		}
		return r
	case *PtrVal:
		y := b.(*PtrVal)
		if x == y {
			return x
		}
		r := &PtrVal{}
		add := func(g *Term, alts []PtrAlt) {
		outer:
			for _, al := range alts {
				cc := And(g, al.C)
				if cc == TFalse {
					continue
				}
				for i := range r.Alts {
					if r.Alts[i].O == al.O && samePath(r.Alts[i].Path, al.Path) {
						r.Alts[i].C = Or(r.Alts[i].C, cc)
						continue outer
					}
				}
				r.Alts = append(r.Alts, PtrAlt{C: cc, O: al.O, Path: al.Path})
			}
		}
		add(c, x.Alts)
		add(Not(c), y.Alts)
		return r
	case *IfaceVal:
		y := b.(*IfaceVal)
		if x == y {
			return x
		}
		r := &IfaceVal{}
		add := func(g *Term, alts []IfaceAlt) {
		outer:
			for _, al := range alts {
				cc := And(g, al.C)
				if cc == TFalse {
					continue
				}
				for i := range r.Alts {
					ra := &r.Alts[i]
					if al.Opaque != nil && ra.Opaque != nil {
						ra.Opaque = Ite(cc, al.Opaque, ra.Opaque)
						ra.C = Or(ra.C, cc)
						continue outer
					}
					if al.Opaque == nil && ra.Opaque == nil {
						if al.T == nil && ra.T == nil {
							ra.C = Or(ra.C, cc)
							continue outer
						}
						if al.T != nil && ra.T != nil && types.Identical(al.T, ra.T) {
							ra.V = ex.merge(cc, al.V, ra.V)
							ra.C = Or(ra.C, cc)
							continue outer
						}
					}
				}
				r.Alts = append(r.Alts, IfaceAlt{C: cc, T: al.T, V: al.V, Opaque: al.Opaque})
			}
		}
		add(Not(c), y.Alts)
		add(c, x.Alts)
		return r
	case *SliceVal:
		y := b.(*SliceVal)
		if x == y {
			return x
		}
		r := &SliceVal{Elem: x.Elem}
		add := func(g *Term, alts []SliceAlt) {
		outer:
			for _, al := range alts {
				cc := And(g, al.C)
				if cc == TFalse {
					continue
				}
				for i := range r.Alts {
					ra := &r.Alts[i]
					if ra.O == al.O {
						ra.Off = Ite(cc, al.Off, ra.Off)
						ra.Len = Ite(cc, al.Len, ra.Len)
						ra.C = Or(ra.C, cc)
						continue outer
					}
				}
				r.Alts = append(r.Alts, SliceAlt{C: cc, O: al.O, Off: al.Off, Len: al.Len})
			}
		}
		add(Not(c), y.Alts)
		add(c, x.Alts)
		return r
	case *FuncVal:
		y := b.(*FuncVal)
		if x == y {
			return x
		}
		r := &FuncVal{}
		for _, al := range x.Alts {
			if cc := And(c, al.C); cc != TFalse {
				al.C = cc
				r.Alts = append(r.Alts, al)
			}
		}
		for _, al := range y.Alts {
			if cc := And(Not(c), al.C); cc != TFalse {
				al.C = cc
				r.Alts = append(r.Alts, al)
			}
		}
		return r
	case *MapVal:
		y := b.(*MapVal)
		if x == y {
			return x
		}
		r := &MapVal{K: x.K, V: x.V}
		add := func(g *Term, alts []MapAlt) {
		outer:
			for _, al := range alts {
				cc := And(g, al.C)
				if cc == TFalse {
					continue
				}
				for i := range r.Alts {
					if r.Alts[i].O == al.O {
						r.Alts[i].C = Or(r.Alts[i].C, cc)
						continue outer
					}
				}
				r.Alts = append(r.Alts, MapAlt{C: cc, O: al.O})
			}
		}
		add(c, x.Alts)
		add(Not(c), y.Alts)
		return r
	case *ReflVal:
		y := b.(*ReflVal)
		return &ReflVal{IV: ex.merge(c, x.IV, y.IV).(*IfaceVal)}
	case *HostVal:
		y := b.(*HostVal)
		if x == y {
			return x
		}
		return &HostVal{Kind: x.Kind, V: ex.merge(c, x.V, y.V)}
	case *MapContent:
		y := b.(*MapContent)
		if x == y {
			return x
		}
		// common prefix of entries is shared; the rest is guarded
		n := 0
		for n < len(x.Ents) && n < len(y.Ents) && x.Ents[n] == y.Ents[n] {
			n++
		}
		if x.Base != y.Base {
			panic(unsupported("merge of maps with different bases"))
		}
		r := &MapContent{Base: x.Base, Ents: append([]MapEnt(nil), x.Ents[:n]...)}
		for _, e := range x.Ents[n:] {
			e.C = And(c, e.C)
			r.Ents = append(r.Ents, e)
		}
		for _, e := range y.Ents[n:] {
			e.C = And(Not(c), e.C)
			r.Ents = append(r.Ents, e)
		}
		return r
	}
	panic(fmt.Sprintf("merge: unhandled value %T", a))
}

func samePath(a, b []PathElem) bool {
	if len(a) != len(b) {
		return false
	}
	for i := range a {
		if a[i].Field != b[i].Field || a[i].Index != b[i].Index {
			return false
		}
	}
	return true
}

// valueEq returns a term stating structural equality of two values of the same shape
// (used by obligations; pointer-like values compare by identity).
func (ex *Exec) valueEq(a, b Value) *Term {
	switch x := a.(type) {
	case *Term:
		return Eq(x, b.(*Term))
	case *StructVal:
		y := b.(*StructVal)
		var cs []*Term
		for i := range x.F {
			cs = append(cs, ex.valueEq(x.F[i], y.F[i]))
		}
		return And(cs...)
	case *PtrVal:
		return ex.ptrEq(x, b.(*PtrVal))
	case *IfaceVal:
		return ex.ifaceEq(x, b.(*IfaceVal))
	case *SliceVal:
		return ex.sliceIdentical(x, b.(*SliceVal))
	case *TupleVal:
		y := b.(*TupleVal)
		var cs []*Term
		for i := range x.V {
			cs = append(cs, ex.valueEq(x.V[i], y.V[i]))
		}
		return And(cs...)
	case *FuncVal:
		y := b.(*FuncVal)
		var cs []*Term
		for _, p := range x.Alts {
			for _, q := range y.Alts {
				same := p.Fn == q.Fn && p.Opaque == q.Opaque && len(p.Bind) == len(q.Bind)
				if same {
					cs = append(cs, And(p.C, q.C))
				}
			}
		}
		return Or(cs...)
	case *MapVal:
		y := b.(*MapVal)
		var cs []*Term
		for _, p := range x.Alts {
			for _, q := range y.Alts {
				if p.O == q.O {
					cs = append(cs, And(p.C, q.C))
				}
			}
		}
		return Or(cs...)
	}
	panic(fmt.Sprintf("valueEq: unhandled %T", a))
}

func (ex *Exec) ptrEq(x, y *PtrVal) *Term {
	var cs []*Term
	for _, p := range x.Alts {
		for _, q := range y.Alts {
			if p.O != q.O || len(p.Path) != len(q.Path) {
				continue
			}
			c := And(p.C, q.C)
			for i := range p.Path {
				if p.Path[i].Index != nil && q.Path[i].Index != nil {
					c = And(c, Eq(p.Path[i].Index, q.Path[i].Index))
				} else if p.Path[i].Field != q.Path[i].Field || (p.Path[i].Index == nil) != (q.Path[i].Index == nil) {
					c = TFalse
				}
			}
			cs = append(cs, c)
		}
	}
	return Or(cs...)
}

func (ex *Exec) sliceIdentical(x, y *SliceVal) *Term {
	var cs []*Term
	for _, p := range x.Alts {
		for _, q := range y.Alts {
			if p.O != q.O {
				continue
			}
			if p.O == nil {
				cs = append(cs, And(p.C, q.C))
				continue
			}
			cs = append(cs, And(p.C, q.C, Eq(p.Off, q.Off), Eq(p.Len, q.Len)))
		}
	}
	return Or(cs...)
}
