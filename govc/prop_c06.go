package main

// C06: the paths natural-language text takes through both codecs, at call-chain level. The byte-level
// escaper stringBytes is used by its contract (it appends one JSON string that a correct parser decodes
// back to its argument) and proved against it in bytevc.go; unescape is an uninterpreted function of its argument; everything between them
// (which function is applied to the text on which path, what the readers do with the decoded bytes) is the
// real code.

import (
	"fmt"
	"go/types"
	"strings"

	"golang.org/x/tools/go/ssa"
)

func init() { drivers["C06"] = checkC06 }

type jsonPiece struct {
	lit string // literal bytes, or
	str *Term  // the argument of one stringBytes call (a JSON string decoding to it)
}

// flattenWire decomposes bcat(...) of literals and registered JSON strings.
func flattenWire(t *Term, reg map[*Term]*Term, out *[]jsonPiece) bool {
	switch {
	case t.Op == "app" && t.Name == "bcat":
		return flattenWire(t.Args[0], reg, out) && flattenWire(t.Args[1], reg, out)
	case t.Op == "lit":
		if t != BytesNil && t.Name != "" {
			*out = append(*out, jsonPiece{lit: t.Name})
		}
		return true
	}
	if a, ok := reg[t]; ok {
		*out = append(*out, jsonPiece{str: a})
		return true
	}
	return false
}

// resolveUnder removes the ite nodes of a byte term whose condition is decided by the hypotheses.
func (ex *Exec) resolveUnder(t *Term, hyps []*Term) *Term {
	switch {
	case t.Op == "ite":
		if !ex.feasible(And(append([]*Term{t.Args[0]}, hyps...)...)) {
			return ex.resolveUnder(t.Args[2], hyps)
		}
		if !ex.feasible(And(append([]*Term{Not(t.Args[0])}, hyps...)...)) {
			return ex.resolveUnder(t.Args[1], hyps)
		}
		return t
	case t.Op == "app" && t.Name == "bcat":
		return BCat(ex.resolveUnder(t.Args[0], hyps), ex.resolveUnder(t.Args[1], hyps))
	}
	return t
}

func checkC06(w *World, c *Check) {
	guard(c, "C06/bytes", func() { addByteLevel(w, c, "C06") })
	c.Trusted = append(c.Trusted,
		"the escaper stringBytes is used at its call sites by its contract (it appends one JSON string literal that a JSON parser decodes back to its argument) and PROVED against that contract at byte level in this check (C06/bytes/stringBytes/..., all input lengths; lossy only for invalid UTF-8); fastjson's GetStringBytes returns those decoded bytes (assumed)",
		"unescape is an uninterpreted function of its argument (eight bytes.ReplaceAll passes): nothing is assumed about it, so text that must come back unchanged must not pass through it",
		"fastjson.Parser.ParseBytes applied to arbitrary text may fail or yield a value of any JSON type (uninterpreted); Object.Visit calls its callback once per member in order",
		"encoding/gob round-trips a value of identical Go type (assumed pair, as in C03)",
		"go/types + go/ssa; SMT solvers' unsat answers")
	c.Assume = append(c.Assume,
		"DECIDED (call-chain level): for a single value and for a two-entry language map, the real NaturalLanguageValues.MarshalJSON / LangRefValue.MarshalJSON are executed with the escaper by contract, the JSON text they assemble is decomposed into members, and the real JSONGetNaturalLanguageField (with the real LangRefValue.UnmarshalJSON, Content.UnmarshalJSON/UnmarshalText) is executed on it: every entry's text and tag must come back identical for ALL byte strings; the gob path NaturalLanguageValues.GobEncode/GobDecode, Content, LangRef, LangRefValue likewise",
		"NOT DECIDED: what unescape does byte by byte (eight bytes.ReplaceAll passes; it is outside both executors); maps are bounded to two entries (bounded(2)), each entry arbitrary")
	nlvT := w.Type("NaturalLanguageValues")
	lrvT := w.Type("LangRefValue")

	mkList := func(ex *Exec, ents [][2]*Term) *SliceVal {
		o := ex.newObj("nlv", OConcArr, lrvT)
		av := &ArrVal{}
		for _, e := range ents {
			av.E = append(av.E, &StructVal{T: lrvT, F: []Value{e[0], e[1]}})
		}
		ex.initCache[o] = av
		return &SliceVal{Elem: lrvT, Alts: []SliceAlt{{C: TTrue, O: o, Off: IntLit(0), Len: IntLit(int64(len(ents)))}}}
	}
	type run struct {
		ex   *Exec
		st   *State
		wire *Term
		reg  map[*Term]*Term
	}
	encode := func(ents [][2]*Term) *run {
		ex := w.NewExec()
		delete(ex.abstractFns, "stringBytes")
		r := &run{ex: ex, st: newState(), reg: map[*Term]*Term{}}
		ex.hooks["stringBytes"] = func(ex *Exec, st *State, fn *ssa.Function, a []Value) (Value, bool) {
			p := a[0].(*PtrVal)
			cur := ex.load(st, p, nil, fn.Pos()).(*Term)
			ex.objSeq++
			t := Var(fmt.Sprintf("jsonstring!%d", ex.objSeq), SBytes)
			ex.assume(Gt(App("blen", SInt, t), IntLit(1)))
			r.reg[t] = a[1].(*Term)
			ex.store(st, p, BCat(cur, t), fn.Pos())
			return nil, true
		}
		res := ex.Call(r.st, w.Method("NaturalLanguageValues", "MarshalJSON"), []Value{mkList(ex, ents)}, nil).(*TupleVal)
		r.wire = res.V[0].(*Term)
		return r
	}
	// reader on a member described by pieces
	decode := func(r *run, pieces []jsonPiece) (*SliceVal, bool) {
		ex := r.ex
		st := newState()
		r.st = st
		doc := Var("doc", jvSort)
		m := jGet(doc, StrLit("p"))
		ex.assume(Neq(doc, jvNil))
		ex.assume(Neq(m, jvNil))
		switch {
		case len(pieces) == 1 && pieces[0].str != nil:
			ex.knownTerms[jType(m)] = IntLit(jTypeString)
			ex.assume(Eq(App("jtype", SInt, m), IntLit(jTypeString)))
			ex.assume(Eq(App("jstr", SBytes, m), pieces[0].str))
		case len(pieces) >= 5 && pieces[0].lit == "{" && pieces[len(pieces)-1].lit == "}":
			ex.knownTerms[jType(m)] = IntLit(jTypeObject)
			ex.assume(Eq(App("jtype", SInt, m), IntLit(jTypeObject)))
			type kvp struct{ k, v *Term }
			var kvs []kvp
			body := pieces[1 : len(pieces)-1]
			for i := 0; i < len(body); {
				if body[i].lit == "," {
					i++
					continue
				}
				if i+2 < len(body)+0 && body[i].str != nil && body[i+1].lit == ":" && body[i+2].str != nil {
					kvs = append(kvs, kvp{body[i].str, body[i+2].str})
					i += 3
					continue
				}
				return nil, false
			}
			externals["(*fastjson.Object).Visit"] = func(ex *Exec, st2 *State, a []Value, x *ssa.Call) Value {
				fv := a[1].(*FuncVal)
				for i, kv := range kvs {
					v := Var(fmt.Sprintf("member!%d", i), jvSort)
					ex.assume(Neq(v, jvNil))
					ex.assume(Eq(jType(v), IntLit(jTypeString)))
					ex.assume(Eq(App("jstr", SBytes, v), kv.v))
					for _, al := range fv.Alts {
						if al.Fn != nil {
							sub := &State{pc: And(st2.pc, al.C), env: st2.env, heap: st2.heap}
							ex.callStatic(sub, al.Fn, []Value{kv.k, v}, al.Bind, nil)
							st2.heap = sub.heap
						}
					}
				}
				return nil
			}
		default:
			return nil, false
		}
		res := ex.Call(st, w.Func("JSONGetNaturalLanguageField"), []Value{doc, StrLit("p")}, nil)
		sl, ok := res.(*SliceVal)
		return sl, ok
	}
	defaultVisit := externals["(*fastjson.Object).Visit"]
	defer func() { externals["(*fastjson.Object).Visit"] = defaultVisit }()

	shapes := []string{"single-untagged", "single-tagged", "map-of-two"}
	if c.Tier == "thorough" {
		shapes = append(shapes, "map-of-three")
	}
	for _, shape := range shapes {
		shape := shape
		grp := "C06/json/" + shape
		guard(c, grp, func() {
			defer func() { externals["(*fastjson.Object).Visit"] = defaultVisit }()
			x0, x1, x2 := Var("text0", SBytes), Var("text1", SBytes), Var("text2", SBytes)
			t0, t1, t2 := Var("tag0", SStr), Var("tag1", SStr), Var("tag2", SStr)
			var ents [][2]*Term
			var hyps []*Term
			switch shape {
			case "single-untagged":
				ents = [][2]*Term{{StrLit(""), x0}}
				hyps = []*Term{Gt(BLen(x0), IntLit(0))}
			case "single-tagged":
				ents = [][2]*Term{{t0, x0}}
				hyps = []*Term{Gt(BLen(x0), IntLit(0)), Gt(SLen(t0), IntLit(0)), Neq(t0, StrLit("-"))}
			case "map-of-three":
				ents = [][2]*Term{{t0, x0}, {t1, x1}, {t2, x2}}
				hyps = []*Term{Gt(BLen(x0), IntLit(0)), Gt(BLen(x1), IntLit(0)), Gt(BLen(x2), IntLit(0)), Gt(SLen(t0), IntLit(0)), Gt(SLen(t1), IntLit(0)), Gt(SLen(t2), IntLit(0)),
					Neq(t0, t1), Neq(t0, t2), Neq(t1, t2), Neq(t0, StrLit("-")), Neq(t1, StrLit("-")), Neq(t2, StrLit("-"))}
			default:
				ents = [][2]*Term{{t0, x0}, {t1, x1}}
				hyps = []*Term{Gt(BLen(x0), IntLit(0)), Gt(BLen(x1), IntLit(0)), Gt(SLen(t0), IntLit(0)), Gt(SLen(t1), IntLit(0)), Neq(t0, t1), Neq(t0, StrLit("-")), Neq(t1, StrLit("-"))}
			}
			r := encode(ents)
			ex := r.ex
			var pieces []jsonPiece
			okW := true
			var wireLeaf *Term
			bytesLeaves(ex.resolveUnder(r.wire, append(append([]*Term{}, hyps...), ex.assumes...)), TTrue, func(cnd, leaf *Term) {
				if !ex.feasible(And(append([]*Term{cnd}, hyps...)...)) {
					return
				}
				if wireLeaf != nil {
					okW = false
				}
				wireLeaf = leaf
			})
			pos := ex.pos(w.Method("NaturalLanguageValues", "MarshalJSON").Pos())
			fns := []string{"(NaturalLanguageValues).MarshalJSON", "(LangRefValue).MarshalJSON", "JSONGetNaturalLanguageField", "(*LangRefValue).UnmarshalJSON", "(*Content).UnmarshalText"}
			if wireLeaf == nil || !okW || !flattenWire(wireLeaf, r.reg, &pieces) {
				c.Add(&Obligation{Name: grp + "/wire-shape", EngineErr: "the JSON text assembled by MarshalJSON is not a string or an object of strings: " + fmt.Sprint(ex.resolveUnder(r.wire, append(append([]*Term{}, hyps...), ex.assumes...))), Pos: pos, Funcs: fns})
				return
			}
			got, ok := decode(r, pieces)
			if !ok {
				c.Add(&Obligation{Name: grp + "/wire-shape", EngineErr: "unexpected member structure", Pos: pos, Funcs: fns})
				return
			}
			common := append(append([]*Term{ex.NoPanic()}, hyps...), ex.assumes...)
			c.Add(&Obligation{Witnesses: append([]Witness{{"len", sliceLen(got)}, {"nopanic", ex.NoPanic()}, {"tag0nil", Eq(t0, StrLit("-"))}, {"tag0len", SLen(t0)}, {"text0len", BLen(x0)}}, altWitnesses(got)...), Name: grp + "/count", Group: grp, Common: common, Goal: Eq(sliceLen(got), IntLit(int64(len(ents)))), Pos: pos, Funcs: fns, Bounded: boundOf(shape), Replay: c06Replay})
			for k, e := range ents {
				el, isS := ex.readElem(r.st, got, IntLit(int64(k))).(*StructVal)
				if !isS {
					c.Add(&Obligation{Name: fmt.Sprintf("%s/entry%d/text-identical", grp, k), Group: grp, Common: common, Goal: TFalse, Pos: pos, Funcs: fns, Bounded: boundOf(shape), Replay: c06Replay})
					continue
				}
				c.Add(&Obligation{Name: fmt.Sprintf("%s/entry%d/text-identical", grp, k), Group: grp, Common: common, Goal: Eq(el.F[1].(*Term), e[1]), Pos: pos, Funcs: fns, Bounded: boundOf(shape), Replay: c06Replay})
				if strings.HasPrefix(shape, "map-of-") {
					c.Add(&Obligation{Name: fmt.Sprintf("%s/entry%d/tag-preserved", grp, k), Group: grp, Common: common, Goal: Eq(el.F[0].(*Term), e[0]), Pos: pos, Funcs: fns, Bounded: boundOf(shape), Replay: c06Replay})
				}
			}
			for i, p := range ex.panics {
				c.Add(&Obligation{Name: fmt.Sprintf("%s/nopanic/%s#%d", grp, p.Kind, i), Group: grp + "/nopanic", Common: append(hyps, ex.assumes...), Goal: Not(p.C), Pos: p.Pos, Funcs: fns, Bounded: boundOf(shape)})
			}
		})
	}

	// ---- source content: the text of a source read back from the document ----
	guard(c, "C06/json/source-content", func() {
		ex := w.NewExec()
		st := newState()
		x := Var("text0", SBytes)
		doc := Var("doc", jvSort)
		src := jGet(doc, StrLit("source"))
		m := jGet(src, StrLit("content"))
		ex.assume(Neq(doc, jvNil))
		ex.assume(Neq(src, jvNil))
		ex.assume(Neq(m, jvNil))
		ex.assume(Eq(App("jtype", SInt, src), IntLit(jTypeObject)))
		ex.assume(Eq(App("jtype", SInt, m), IntLit(jTypeString)))
		ex.knownTerms[jType(m)] = IntLit(jTypeString)
		ex.knownTerms[jType(src)] = IntLit(jTypeObject)
		ex.assume(Eq(App("jstr", SBytes, m), x))
		fn := w.Func("GetAPSource")
		res := ex.Call(st, fn, []Value{doc}, nil).(*StructVal)
		content := res.F[fieldIndex(w.Type("Source"), "Content")].(*SliceVal)
		common := append([]*Term{ex.NoPanic(), Gt(BLen(x), IntLit(0))}, ex.assumes...)
		pos := ex.pos(fn.Pos())
		fns := []string{"GetAPSource"}
		c.Add(&Obligation{Name: "C06/json/source-content/count", Group: "C06/json/source-content", Common: common, Goal: Eq(sliceLen(content), IntLit(1)), Pos: pos, Funcs: fns, Replay: c06SourceReplay})
		if el, ok := ex.readElem(st, content, IntLit(0)).(*StructVal); ok {
			c.Add(&Obligation{Name: "C06/json/source-content/text-identical", Group: "C06/json/source-content", Common: common, Goal: Eq(el.F[1].(*Term), x), Pos: pos, Funcs: fns, Replay: c06SourceReplay})
		} else {
			c.Add(&Obligation{Name: "C06/json/source-content/text-identical", Group: "C06/json/source-content", Common: common, Goal: TFalse, Pos: pos, Funcs: fns, Replay: c06SourceReplay})
		}
	})

	// ---- gob ----
	for _, n := range []int{1, 2} {
		n := n
		grp := fmt.Sprintf("C06/gob/entries=%d", n)
		guard(c, grp, func() {
			ex := w.NewExec()
			st := newState()
			var ents [][2]*Term
			for k := 0; k < n; k++ {
				ents = append(ents, [2]*Term{Var(fmt.Sprintf("tag%d", k), SStr), Var(fmt.Sprintf("text%d", k), SBytes)})
			}
			r := ex.Call(st, w.Method("NaturalLanguageValues", "GobEncode"), []Value{mkList(ex, ents)}, nil).(*TupleVal)
			data, err1 := r.V[0].(*Term), r.V[1].(*Term)
			yo := ex.newObj("y", OCell, nlvT)
			st.heap[yo] = ex.zeroValue(nlvT)
			yp := &PtrVal{Alts: []PtrAlt{{C: TTrue, O: yo}}}
			err2 := ex.Call(st, w.Method("*NaturalLanguageValues", "GobDecode"), []Value{yp, data}, nil).(*Term)
			got := ex.heapGet(st, yo).(*SliceVal)
			common := append([]*Term{ex.NoPanic()}, ex.assumes...)
			pos := ex.pos(w.Method("NaturalLanguageValues", "GobEncode").Pos())
			fns := []string{"(NaturalLanguageValues).GobEncode", "(*NaturalLanguageValues).GobDecode"}
			c.Add(&Obligation{Name: grp + "/codec-ok", Group: grp, Common: common, Goal: And(Eq(err1, ErrNil), Eq(err2, ErrNil)), Pos: pos, Funcs: fns, Bounded: 2, Replay: c06Replay})
			c.Add(&Obligation{Name: grp + "/count", Group: grp, Common: common, Goal: Eq(sliceLen(got), IntLit(int64(n))), Pos: pos, Funcs: fns, Bounded: 2, Replay: c06Replay})
			for k, e := range ents {
				el, isS := ex.readElem(st, got, IntLit(int64(k))).(*StructVal)
				if !isS {
					c.Add(&Obligation{Name: fmt.Sprintf("%s/entry%d", grp, k), Group: grp, Common: common, Goal: TFalse, Pos: pos, Funcs: fns, Bounded: 2, Replay: c06Replay})
					continue
				}
				c.Add(&Obligation{Name: fmt.Sprintf("%s/entry%d/text-identical", grp, k), Group: grp, Common: common, Goal: Eq(el.F[1].(*Term), e[1]), Pos: pos, Funcs: fns, Bounded: 2, Replay: c06Replay})
				c.Add(&Obligation{Name: fmt.Sprintf("%s/entry%d/tag-preserved", grp, k), Group: grp, Common: common, Goal: Eq(el.F[0].(*Term), e[0]), Pos: pos, Funcs: fns, Bounded: 2, Replay: c06Replay})
			}
		})
	}
	for _, tn := range []string{"Content", "LangRef", "Source"} {
		tn := tn
		grp := "C06/gob/" + tn
		guard(c, grp, func() {
			ex := w.NewExec()
			st := newState()
			T := w.Type(tn)
			x := ex.symValue(T, varNamer("x"), false)
			if tn == "Source" {
				installGobItemContracts(ex, w)
			}
			r := ex.Call(st, w.Method(tn, "GobEncode"), []Value{x}, nil).(*TupleVal)
			yo := ex.newObj("y", OCell, T)
			st.heap[yo] = ex.zeroValue(T)
			err2 := ex.Call(st, w.Method("*"+tn, "GobDecode"), []Value{&PtrVal{Alts: []PtrAlt{{C: TTrue, O: yo}}}, r.V[0]}, nil).(*Term)
			got := ex.heapGet(st, yo)
			common := append([]*Term{ex.NoPanic()}, ex.assumes...)
			c.Add(&Obligation{Name: grp + "/round-trip", Group: grp, Common: common, Goal: And(Eq(r.V[1].(*Term), ErrNil), Eq(err2, ErrNil), ex.normEq(st, got, x, T)), Pos: tn + ".GobEncode", Funcs: []string{"(" + tn + ").GobEncode", "(*" + tn + ").GobDecode"}, Replay: c06Replay})
		})
	}
	_ = types.Typ
}

func boundOf(shape string) int {
	switch shape {
	case "map-of-two":
		return 2
	case "map-of-three":
		return 3
	}
	return 0
}

func c06Replay(map[string]string) string {
	return `package activitypub

import (
	"bytes"
	"testing"
)

func TestVerifReplay(t *testing.T) {
	texts := []string{"plain", "a", "ab", "abc", "hello world", "<p>html &amp; \"quotes\"</p>", "new\nline\ttab", "back\\slash", "a\\nb", "\\u0041", "123", "true", "null", "[1]", "{\"a\":\"b\"}", "\"quoted\"", "\U0001F600 astral", "\x01control", " sep"}
	for _, s := range texts {
		for _, form := range []string{"single", "tagged", "map", "map-long-tags"} {
			var n NaturalLanguageValues
			switch form {
			case "single":
				n = NaturalLanguageValues{{Ref: NilLangRef, Value: Content(s)}}
			case "tagged":
				n = NaturalLanguageValues{{Ref: "en", Value: Content(s)}}
			case "map":
				n = NaturalLanguageValues{{Ref: "en", Value: Content(s)}, {Ref: "fr", Value: Content("autre " + s)}}
			default:
				n = NaturalLanguageValues{{Ref: "en-US", Value: Content(s)}, {Ref: "zh-Hant", Value: Content("autre " + s)}, {Ref: "x", Value: Content(s)}}
			}
			o := &Object{ID: "https://example.com/verif/o", Type: NoteType, Name: n}
			data, err := o.MarshalJSON()
			if err != nil {
				t.Errorf("%s %q: encode: %v", form, s, err)
				continue
			}
			it, err := UnmarshalJSON(data)
			if err != nil || it == nil {
				t.Errorf("%s %q: wrote %s, decode: %v", form, s, data, err)
				continue
			}
			got := it.(*Object).Name
			if len(got) != len(n) {
				t.Errorf("json %s %q: wrote %s, read back %d entries (%v)", form, s, data, len(got), got)
				continue
			}
			for i := range n {
				if !bytes.Equal(got[i].Value, n[i].Value) || (len(n) > 1 && got[i].Ref != n[i].Ref) {
					t.Errorf("json %s: text %q came back as %q (tag %q -> %q); wire %s", form, n[i].Value, got[i].Value, n[i].Ref, got[i].Ref, data)
				}
			}
			g, err := o.GobEncode()
			if err != nil {
				t.Errorf("gob encode: %v", err)
				continue
			}
			o2 := &Object{}
			if err := o2.GobDecode(g); err != nil {
				t.Errorf("gob decode: %v", err)
				continue
			}
			if len(o2.Name) != len(n) {
				t.Errorf("gob %s %q: %d entries back", form, s, len(o2.Name))
				continue
			}
			for i := range n {
				if !bytes.Equal(o2.Name[i].Value, n[i].Value) || o2.Name[i].Ref != n[i].Ref {
					t.Errorf("gob %s: text %q[%s] came back as %q[%s]", form, n[i].Value, n[i].Ref, o2.Name[i].Value, o2.Name[i].Ref)
				}
			}
		}
	}
}
`
}

func altWitnesses(s *SliceVal) []Witness {
	var ws []Witness
	for i, a := range s.Alts {
		ws = append(ws, Witness{fmt.Sprintf("alt%d.C", i), a.C}, Witness{fmt.Sprintf("alt%d.len", i), a.Len})
	}
	return ws
}

func c06SourceReplay(map[string]string) string {
	return `package activitypub

import (
	"bytes"
	"testing"
)

func TestVerifReplay(t *testing.T) {
	for _, s := range []string{"plain", "hello world", "a\\nb", "123", "true", "{\"a\":\"b\"}", "\"quoted\"", "back\\slash"} {
		o := &Object{ID: "https://example.com/verif/o", Type: NoteType, Source: Source{MediaType: "text/markdown", Content: NaturalLanguageValues{{Ref: NilLangRef, Value: Content(s)}}}}
		data, err := o.MarshalJSON()
		if err != nil {
			t.Fatal(err)
		}
		it, err := UnmarshalJSON(data)
		if err != nil || it == nil {
			t.Errorf("%q: wrote %s, decode: %v", s, data, err)
			continue
		}
		got := it.(*Object).Source.Content
		if len(got) != 1 || !bytes.Equal(got[0].Value, []byte(s)) {
			t.Errorf("source content %q came back as %v; wire %s", s, got, data)
		}
	}
}
`
}
