package main

import (
	"fmt"
	"go/types"
	"strings"

	"golang.org/x/tools/go/ssa"
)

func init() { drivers["C17"] = checkC17 }

// ---------- shared helpers for drivers ----------

func (w *World) Func(name string) *ssa.Function {
	if f := w.Pkg.Func(name); f != nil {
		return f
	}
	panic(unsupported("function " + name + " not found in package"))
}

// Method looks up a method by receiver type name (with * for pointer receiver sets) and name.
func (w *World) Method(recv string, name string) *ssa.Function {
	ptr := strings.HasPrefix(recv, "*")
	tn := w.TPkg.Scope().Lookup(strings.TrimPrefix(recv, "*"))
	if tn == nil {
		panic(unsupported("type " + recv + " not found"))
	}
	var t types.Type = tn.Type()
	if ptr {
		t = types.NewPointer(t)
	}
	sel := w.Prog.MethodSets.MethodSet(t).Lookup(w.TPkg, name)
	if sel == nil {
		panic(unsupported("method " + recv + "." + name + " not found"))
	}
	return w.Prog.MethodValue(sel)
}

func (w *World) Type(name string) types.Type {
	ptr := strings.HasPrefix(name, "*")
	tn := w.TPkg.Scope().Lookup(strings.TrimPrefix(name, "*"))
	if tn == nil {
		panic(unsupported("type " + name + " not found"))
	}
	if ptr {
		return types.NewPointer(tn.Type())
	}
	return tn.Type()
}

// objectStructs: the struct types of the object family (everything ToObject is meant to accept).
var objectStructNames = []string{"Object", "Place", "Profile", "Relationship", "Tombstone", "Actor", "Activity",
	"IntransitiveActivity", "Question", "Collection", "CollectionPage", "OrderedCollection", "OrderedCollectionPage"}

func (w *World) objectTags() []types.Type {
	var r []types.Type
	for _, n := range objectStructNames {
		r = append(r, w.Type("*"+n), w.Type(n))
	}
	return r
}

func newState() *State {
	return &State{pc: TTrue, env: map[ssa.Value]Value{}, heap: map[*Obj]Value{}}
}

func opaqueItem(x *Term) *IfaceVal { return &IfaceVal{Alts: []IfaceAlt{{C: TTrue, Opaque: x}}} }

func fieldIndex(t types.Type, name string) int {
	st := t.Underlying().(*types.Struct)
	for i := 0; i < st.NumFields(); i++ {
		if st.Field(i).Name() == name {
			return i
		}
	}
	return -1
}

// itemField reads field `name` of opaque item x under the assumption that its dynamic type is t
// (t a struct type or pointer to one), from the initial (pre-state) contents.
func (ex *Exec) itemField(st *State, x *Term, t types.Type, name string) Value {
	v := ex.materialise(x, t)
	if p, ok := v.(*PtrVal); ok {
		el := t.Underlying().(*types.Pointer).Elem()
		for _, al := range p.Alts {
			if al.O != nil {
				sv := ex.heapGet(st, al.O).(*StructVal)
				return sv.F[fieldIndex(el, name)]
			}
		}
	}
	sv := v.(*StructVal)
	return sv.F[fieldIndex(t, name)]
}

func isPtr(t types.Type) bool { _, ok := t.Underlying().(*types.Pointer); return ok }

// tagIn: disjunction tagOf(x) ∈ tags.
func tagIn(x *Term, tags []types.Type) *Term {
	var cs []*Term
	for _, t := range tags {
		cs = append(cs, Eq(tagOfItem(x), TagOf(t)))
	}
	return Or(cs...)
}

func tagIndexTerm(x *Term, tags []types.Type) *Term {
	var r *Term = IntLit(-1)
	for i := len(tags) - 1; i >= 0; i-- {
		r = Ite(Eq(tagOfItem(x), TagOf(tags[i])), IntLit(int64(i)), r)
	}
	return r
}

// ---------- C17 ----------

func checkC17(w *World, c *Check) {
	c.Trusted = append(c.Trusted,
		"time.Time.After(a,b) <=> inst(a) > inst(b) for an integer instant inst (assumed contract of package time)",
		"go/types + go/ssa (x/tools v0.29.0) faithfully represent the compiled code",
		"C08 layout obligations: a *T viewed as *Object reads the same Published/Updated fields",
		"SMT solvers' unsat answers")
	c.Assume = append(c.Assume,
		"domain: nil, typed-nil pointers and the 13 object struct types in value and pointer form (links and IRIs are outside the statement)",
		"reflect-based fallback of ToObject is only reached for the untyped nil here")
	tags := w.objectTags()
	guard(c, "C17/post", func() {
		ex := w.NewExec()
		st := newState()
		x1, x2 := Var("i1", SItem), Var("i2", SItem)
		dom := func(x *Term) *Term { return Or(Eq(tagOfItem(x), TagNil), tagIn(x, tags)) }
		fn := w.Func("ItemOrderTimestamp")
		st0 := newState()
		res := ex.Call(st, fn, []Value{opaqueItem(x1), opaqueItem(x2)}, nil).(*Term)
		// spec, from the property statement
		nilLike := func(x *Term) *Term {
			cs := []*Term{Eq(tagOfItem(x), TagNil)}
			for _, t := range tags {
				if isPtr(t) {
					cs = append(cs, And(Eq(tagOfItem(x), TagOf(t)), App("ptrnil", SBool, x)))
				}
			}
			return Or(cs...)
		}
		field := func(x *Term, name string) *Term {
			var r *Term
			for _, t := range tags {
				f := ex.itemField(st0, x, t, name).(*Term)
				if r == nil {
					r = f
				} else {
					r = Ite(Eq(tagOfItem(x), TagOf(t)), f, r)
				}
			}
			return r
		}
		key := func(x *Term) *Term {
			p, u := Inst(field(x, "Published")), Inst(field(x, "Updated"))
			return Ite(Gt(u, p), u, p)
		}
		n1, n2 := nilLike(x1), nilLike(x2)
		k1, k2 := key(x1), key(x2)
		spec := Or(And(n1, Not(n2)), And(Not(n1), Not(n2), Gt(k1, k2)))
		hyps := append([]*Term{dom(x1), dom(x2), ex.NoPanic()}, ex.assumes...)
		wit := []Witness{
			{"tag1", tagIndexTerm(x1, tags)}, {"tag2", tagIndexTerm(x2, tags)},
			{"nil1", n1}, {"nil2", n2},
			{"pub1", Inst(field(x1, "Published"))}, {"upd1", Inst(field(x1, "Updated"))},
			{"pub2", Inst(field(x2, "Published"))}, {"upd2", Inst(field(x2, "Updated"))},
			{"got", res},
		}
		c.Add(&Obligation{Name: "C17/ItemOrderTimestamp/post", Hyps: hyps, Goal: Iff(res, spec), Pos: ex.pos(fn.Pos()),
			Witnesses: wit, Funcs: []string{"ItemOrderTimestamp", "ToObject"},
			Replay: func(m map[string]string) string { return c17Replay(tags, m) }})
		// no panic on the domain
		for i, p := range ex.panics {
			c.Add(&Obligation{Name: fmt.Sprintf("C17/ItemOrderTimestamp/nopanic/%s@%s#%d", p.Kind, p.Fn, i),
				Hyps: append([]*Term{dom(x1), dom(x2)}, ex.assumes...), Goal: Not(p.C), Pos: p.Pos, Funcs: []string{"ItemOrderTimestamp"}})
		}
		// vacuity: the domain admits two non-nil objects with different keys
		c.Add(&Obligation{Name: "C17/cover/domain", ExpectSat: true,
			Hyps: append([]*Term{dom(x1), dom(x2)}, ex.assumes...), Goal: And(Not(n1), Not(n2), Gt(k1, k2), res)})
		for _, n := range sortedNotes(ex) {
			c.Notes = append(c.Notes, n)
		}
	})
	// strict-weak-order lemmas over the specification relation, for all triples
	type it struct{ n, k *Term }
	mkIt := func(s string) it { return it{Var("nil_"+s, SBool), Var("key_"+s, SInt)} }
	R := func(a, b it) *Term { return Or(And(a.n, Not(b.n)), And(Not(a.n), Not(b.n), Gt(a.k, b.k))) }
	a, b, d := mkIt("a"), mkIt("b"), mkIt("c")
	inc := func(x, y it) *Term { return And(Not(R(x, y)), Not(R(y, x))) }
	lem := func(name string, goal *Term) {
		c.Add(&Obligation{Name: "C17/swo/" + name, Goal: goal, Pos: "lemma over C17/ItemOrderTimestamp/post", Funcs: []string{"ItemOrderTimestamp"}})
	}
	lem("irreflexive", Not(R(a, a)))
	lem("asymmetric", Implies(R(a, b), Not(R(b, a))))
	lem("transitive", Implies(And(R(a, b), R(b, d)), R(a, d)))
	lem("incomparability-transitive", Implies(And(inc(a, b), inc(b, d)), inc(a, d)))
	lem("nil-first", Implies(And(a.n, Not(b.n)), R(a, b)))
	lem("newest-first", Implies(And(Not(a.n), Not(b.n), Gt(a.k, b.k)), And(R(a, b), Not(R(b, a)))))
}

func sortedNotes(ex *Exec) []string { return keys(ex.notes) }

func c17Replay(tags []types.Type, m map[string]string) string {
	var b strings.Builder
	b.WriteString("package activitypub\n\nimport (\n\t\"testing\"\n\t\"time\"\n)\n\n")
	b.WriteString("func TestVerifReplay(t *testing.T) {\n")
	b.WriteString("\tat := func(n int64) time.Time { return time.Time{}.Add(time.Duration(n)) } // instants in ns after the zero time\n")
	isNil := map[string]bool{}
	mkItem := func(i string) string {
		var ti int
		fmt.Sscan(m["tag"+i], &ti)
		if m["nil"+i] == "true" || ti < 0 || ti >= len(tags) {
			isNil[i] = true
			if ti >= 0 && ti < len(tags) && isPtr(tags[ti]) {
				return fmt.Sprintf("Item((%s)(nil))", typeName(tags[ti]))
			}
			return "Item(nil)"
		}
		tn := typeName(tags[ti])
		lit := fmt.Sprintf("%s{Published: at(%s), Updated: at(%s)}", strings.TrimPrefix(tn, "*"), m["pub"+i], m["upd"+i])
		if strings.HasPrefix(tn, "*") {
			return "Item(&" + lit + ")"
		}
		return "Item(" + lit + ")"
	}
	fmt.Fprintf(&b, "\ti1 := %s\n\ti2 := %s\n", mkItem("1"), mkItem("2"))
	num := func(k string) string {
		if m[k] == "" {
			return "0"
		}
		return m[k]
	}
	fmt.Fprintf(&b, "\tnil1, nil2 := %v, %v\n", isNil["1"], isNil["2"])
	fmt.Fprintf(&b, "\tkey := func(pub, upd int64) int64 { if upd > pub { return upd }; return pub }\n")
	fmt.Fprintf(&b, "\tk1, k2 := key(%s, %s), key(%s, %s)\n", num("pub1"), num("upd1"), num("pub2"), num("upd2"))
	b.WriteString(`	want := false
	switch {
	case nil1 && !nil2:
		want = true
	case !nil1 && !nil2:
		want = k1 > k2
	}
	if got := ItemOrderTimestamp(i1, i2); got != want {
		t.Fatalf("ItemOrderTimestamp(%#v, %#v) = %v, specification (later of published/updated is after the other's; nil first) says %v", i1, i2, got, want)
	}
}
`)
	return b.String()
}
