package main

// Assumed contracts on dependencies that need more than a one-line model.

import (
	"fmt"
	"go/types"

	"golang.org/x/tools/go/ssa"
)

// installAssumed registers the hooks that stand for assumed contracts of external packages.
func (ex *Exec) installAssumed() {
	// reflectItemToType[T](it): the in-package part (IsNil) is executed; the reflect part is the
	// assumed contract of reflect.Type.ConvertibleTo / Value.Convert:
	//   a pointer to a struct whose underlying type is identical to T's converts to *T (same memory),
	//   everything else is refused with ErrorInvalidType (a non-nil error).
	ex.hooks["reflectItemToType"] = func(ex *Exec, st *State, fn *ssa.Function, args []Value) (Value, bool) {
		res := fn.Signature.Results()
		ptrT := res.At(0).Type()
		T := ptrT.Underlying().(*types.Pointer).Elem()
		isNilFn := ex.pkg.Func("IsNil")
		iv := ex.normIface(args[0].(*IfaceVal))
		var isnil *Term
		onStack := false
		for _, f := range ex.stack {
			if f == isNilFn {
				onStack = true
			}
		}
		if onStack {
			// IsNil -> OnObject -> ToObject -> (this fallback) -> IsNil: the inner question is only about
			// the pointer itself (untyped nil or nil pointer), which is what the recursion bottoms out in
			isnil = ex.nilLikeValue(iv)
		} else {
			isnil = ex.Call(st, isNilFn, []Value{iv}, nil).(*Term)
		}
		nilPtr := &PtrVal{Alts: []PtrAlt{{C: TTrue}}}
		var okPtr Value
		okC := TFalse
		for _, al := range iv.Alts {
			if al.Opaque != nil || al.T == nil {
				continue
			}
			if p, ok := al.T.Underlying().(*types.Pointer); ok && types.Identical(p.Elem().Underlying(), T.Underlying()) {
				if okPtr == nil {
					okPtr = al.V
				} else {
					okPtr = ex.merge(al.C, al.V, okPtr)
				}
				okC = Or(okC, al.C)
			}
		}
		ex.note("assumed contract: reflectItemToType refuses every dynamic type that is not a pointer to a struct identical to the target (reflect.ConvertibleTo)")
		e := freshErr(ex, "invalidtype")
		var ptr Value = nilPtr
		var err *Term = e
		if okPtr != nil {
			ptr = ex.merge(okC, okPtr, nilPtr)
			err = Ite(okC, ErrNil, e)
		}
		ptr = ex.merge(isnil, nilPtr, ptr)
		err = Ite(isnil, ErrNil, err)
		return &TupleVal{V: []Value{ptr, err}}, true
	}
}

// ---------- reflect (assumed contract, stated through go/types) ----------

type ReflVal struct{ IV *IfaceVal }

var rtypeSort = Sort("O_reflect_Type")
var rtypeReg = map[string]types.Type{}

func rtypeLit(t types.Type) *Term {
	n := typeName(t)
	rtypeReg[n] = t
	return Lit(rtypeSort, n)
}

func init() {
	externals["reflect.TypeOf"] = func(ex *Exec, st *State, a []Value, x *ssa.Call) Value {
		iv := ex.normIface(a[0].(*IfaceVal))
		var r *Term
		for _, al := range iv.Alts {
			var t *Term
			switch {
			case al.Opaque != nil:
				t = App("reflect.TypeOf", rtypeSort, al.Opaque)
			case al.T == nil:
				t = Lit(rtypeSort, "nil")
			default:
				t = rtypeLit(al.T)
			}
			if r == nil {
				r = t
			} else {
				r = Ite(al.C, t, r)
			}
		}
		return r
	}
	externals["ext:O_reflect_Type.ConvertibleTo"] = func(ex *Exec, st *State, a []Value, x *ssa.Call) Value {
		ex.note("assumed contract: reflect.Type.ConvertibleTo decided by go/types.ConvertibleTo (language conversion rules)")
		var rec func(v, t *Term) *Term
		rec = func(v, t *Term) *Term {
			if v.Op == "ite" {
				return Ite(v.Args[0], rec(v.Args[1], t), rec(v.Args[2], t))
			}
			if t.Op == "ite" {
				return Ite(t.Args[0], rec(v, t.Args[1]), rec(v, t.Args[2]))
			}
			if v.Op == "lit" && v.Name == "nil" {
				ex.panicIf(st, TTrue, "nil-interface-call(reflect.Type)", x.Pos())
				return TFalse
			}
			if v.Op == "lit" && t.Op == "lit" {
				V, T := rtypeReg[v.Name], rtypeReg[t.Name]
				if V != nil && T != nil {
					return BoolLit(types.ConvertibleTo(V, T))
				}
			}
			return App("reflect.ConvertibleTo", SBool, v, t)
		}
		v := a[0].(*Term)
		// a nil reflect.Type inside an ite: the call panics on that branch
		var chk func(v *Term, c *Term)
		chk = func(v *Term, c *Term) {
			if v.Op == "ite" {
				chk(v.Args[1], And(c, v.Args[0]))
				chk(v.Args[2], And(c, Not(v.Args[0])))
			} else if v.Op == "lit" && v.Name == "nil" && c != TTrue {
				ex.panicIf(st, c, "nil-interface-call(reflect.Type)", x.Pos())
			}
		}
		chk(v, TTrue)
		return rec(v, a[1].(*Term))
	}
	externals["reflect.ValueOf"] = func(ex *Exec, st *State, a []Value, x *ssa.Call) Value {
		return &ReflVal{IV: ex.normIface(a[0].(*IfaceVal))}
	}
	externals["(reflect.Value).Convert"] = func(ex *Exec, st *State, a []Value, x *ssa.Call) Value {
		rv := a[0].(*ReflVal)
		t := a[1].(*Term)
		if t.Op != "lit" || rtypeReg[t.Name] == nil {
			panic(unsupported("reflect.Value.Convert to a non-constant type"))
		}
		T := rtypeReg[t.Name]
		r := &IfaceVal{}
		for _, al := range rv.IV.Alts {
			if al.Opaque != nil || al.T == nil {
				ex.panicIf(st, al.C, "reflect.Convert-invalid", x.Pos())
				continue
			}
			if !types.ConvertibleTo(al.T, T) {
				ex.panicIf(st, al.C, "reflect.Convert-not-convertible", x.Pos())
				continue
			}
			r.Alts = append(r.Alts, IfaceAlt{C: al.C, T: T, V: al.V})
		}
		if len(r.Alts) == 0 {
			r.Alts = []IfaceAlt{{C: TTrue}}
		}
		return &ReflVal{IV: r}
	}
	externals["(reflect.Value).Interface"] = func(ex *Exec, st *State, a []Value, x *ssa.Call) Value {
		return a[0].(*ReflVal).IV
	}
	externals["(reflect.Value).IsValid"] = func(ex *Exec, st *State, a []Value, x *ssa.Call) Value {
		rv := a[0].(*ReflVal)
		var cs []*Term
		for _, al := range rv.IV.Alts {
			if al.Opaque != nil {
				cs = append(cs, And(al.C, Neq(tagOfItem(al.Opaque), TagNil)))
			} else if al.T != nil {
				cs = append(cs, al.C)
			}
		}
		return Or(cs...)
	}
	externals["(reflect.Value).Kind"] = func(ex *Exec, st *State, a []Value, x *ssa.Call) Value {
		rv := a[0].(*ReflVal)
		// only Pointer (22) vs other matters to the package
		var r *Term = IntLit(0)
		for _, al := range rv.IV.Alts {
			switch {
			case al.Opaque != nil:
				r = Ite(al.C, App("reflect.Kind", SInt, tagOfItem(al.Opaque)), r)
			case al.T != nil:
				if _, ok := al.T.Underlying().(*types.Pointer); ok {
					r = Ite(al.C, IntLit(22), r)
				} else {
					r = Ite(al.C, IntLit(1), r)
				}
			}
		}
		return r
	}
	externals["(reflect.Value).IsNil"] = func(ex *Exec, st *State, a []Value, x *ssa.Call) Value {
		rv := a[0].(*ReflVal)
		var cs []*Term
		for _, al := range rv.IV.Alts {
			switch {
			case al.Opaque != nil:
				cs = append(cs, And(al.C, App("ptrnil", SBool, al.Opaque)))
			case al.T != nil:
				if p, ok := al.V.(*PtrVal); ok {
					for _, pa := range p.Alts {
						if pa.O == nil {
							cs = append(cs, And(al.C, pa.C))
						}
					}
				}
			}
		}
		return Or(cs...)
	}
}

// ---------- fastjson (assumed contract of the parser's accessor API) ----------
//
// *fastjson.Value is an opaque term; the nil pointer is the literal "zero" of its sort.
// Observers: jget(v,key) (nil-safe), jtype(v), jstr(v) (unescaped string bytes, nil unless String),
// jarr(v)/jlen(v) (array elements), jint/jf64/jbool, jtext(v) (v.String()).

var jvSort = Sort("O_P_fastjson_Value")
var jvNil = Lit(jvSort, "zero")

const (
	jTypeNull   = 0
	jTypeObject = 1
	jTypeArray  = 2
	jTypeString = 3
	jTypeNumber = 4
	jTypeTrue   = 5
	jTypeFalse  = 6
)

func jGet(v, key *Term) *Term {
	if v == jvNil {
		return jvNil
	}
	return App("jget", jvSort, v, key)
}
func jType(v *Term) *Term { return App("jtype", SInt, v) }
func jStr(v *Term) *Term {
	if v == jvNil {
		return BytesNil
	}
	return App("jstr", SBytes, v)
}

func (ex *Exec) jPath(st *State, v *Term, keys Value) *Term {
	if keys == nil {
		return v
	}
	ks := keys.(*SliceVal)
	n, ok := sliceLen(ks).IntVal()
	if !ok {
		panic(unsupported("fastjson Get with symbolic number of keys"))
	}
	for i := int64(0); i < n; i++ {
		k := ex.readElem(st, ks, IntLit(i)).(*Term)
		ex.jgetLog = append(ex.jgetLog, [2]*Term{v, k})
		if ex.jdocLookup != nil && v == ex.jdocRoot {
			if name, ok := k.StrVal(); ok {
				v = ex.jdocLookup(name)
				continue
			}
		}
		v = ex.known(jGet(v, k))
	}
	return v
}

// jsonFacts are ground facts about the observers, instantiated for the terms that occur.
func jsonFacts(all []*Term) []*Term {
	var ax []*Term
	for _, t := range all {
		if t.open || (t.Op != "app" && t.Op != "select") {
			continue
		}
		name := t.Name
		if t.Op == "select" {
			name = "select"
		}
		switch name {
		case "jget":
			// member lookup is nil-safe and only objects have members
			ax = append(ax, Implies(Eq(t.Args[0], jvNil), Eq(t, jvNil)),
				Implies(Neq(t, jvNil), Eq(jType(t.Args[0]), IntLit(jTypeObject))))
		case "jstr":
			ax = append(ax, Implies(Or(Eq(t.Args[0], jvNil), Neq(jType(t.Args[0]), IntLit(jTypeString))), Eq(t, BytesNil)))
		case "jtype":
			ax = append(ax, Ge(t, IntLit(0)), Le(t, IntLit(6)))
		case "select":
			// the elements of a parsed array are values, never nil
			if a := t.Args[0]; a.Op == "app" && a.Name == "jarr" {
				ax = append(ax, Implies(And(Le(IntLit(0), t.Args[1]), Lt(t.Args[1], App("jlen", SInt, a.Args[0]))), Neq(t, jvNil)))
			}
		case "jlen":
			ax = append(ax, Ge(t, IntLit(0)), Implies(Or(Eq(t.Args[0], jvNil), Neq(jType(t.Args[0]), IntLit(jTypeArray))), Eq(t, IntLit(0))))
		}
	}
	return ax
}

func allAxioms(all []*Term) []*Term {
	return append(theoryAxioms(all), jsonFacts(all)...)
}

func init() {
	pre := "(*fastjson.Value)."
	externals[pre+"Get"] = func(ex *Exec, st *State, a []Value, x *ssa.Call) Value {
		return ex.jPath(st, a[0].(*Term), a[1])
	}
	externals[pre+"Exists"] = func(ex *Exec, st *State, a []Value, x *ssa.Call) Value {
		return Neq(ex.jPath(st, a[0].(*Term), a[1]), jvNil)
	}
	externals[pre+"GetStringBytes"] = func(ex *Exec, st *State, a []Value, x *ssa.Call) Value {
		return ex.known(jStr(ex.jPath(st, a[0].(*Term), a[1])))
	}
	// RFC 3339 text of an instant parses back to that instant (assumed pair Time.Format(RFC3339)/UnmarshalText)
	externals["(*time.Time).UnmarshalText"] = func(ex *Exec, st *State, a []Value, x *ssa.Call) Value {
		data := a[1].(*Term)
		t := App("rfc3339.parse", STime, data)
		e := App("rfc3339.err", SErr, data)
		p := a[0].(*PtrVal)
		old := ex.load(st, p, nil, x.Pos())
		if ot, ok := old.(*Term); ok {
			ex.store(st, p, Ite(Eq(e, ErrNil), t, ot), x.Pos())
		}
		return e
	}
	externals["(time.Time).Format"] = func(ex *Exec, st *State, a []Value, x *ssa.Call) Value {
		return B2S(App("time.format", SBytes, a[0].(*Term), a[1].(*Term)))
	}
	externals[pre+"Type"] = func(ex *Exec, st *State, a []Value, x *ssa.Call) Value {
		v := a[0].(*Term)
		ex.panicIf(st, Eq(v, jvNil), "nil-deref(*fastjson.Value).Type", x.Pos())
		return ex.known(jType(v))
	}
	externals[pre+"String"] = func(ex *Exec, st *State, a []Value, x *ssa.Call) Value {
		return App("jtext", SStr, a[0].(*Term))
	}
	externals[pre+"MarshalTo"] = func(ex *Exec, st *State, a []Value, x *ssa.Call) Value {
		return BCat(a[1].(*Term), S2B(App("jtext", SStr, a[0].(*Term))))
	}
	externals[pre+"GetArray"] = func(ex *Exec, st *State, a []Value, x *ssa.Call) Value {
		v := ex.jPath(st, a[0].(*Term), a[1])
		ln := ex.known(App("jlen", SInt, v))
		isArr := ex.known(And(Neq(v, jvNil), Eq(ex.known(jType(v)), IntLit(jTypeArray))))
		o := ex.newObj("jarr:"+v.String(), OSymArr, x.Type().Underlying().(*types.Slice).Elem())
		arr := App("jarr", ArraySort(jvSort), v)
		o.init = func() Value { return arr }
		el := x.Type().Underlying().(*types.Slice).Elem()
		return &SliceVal{Elem: el, Alts: []SliceAlt{{C: Not(isArr), Off: IntLit(0), Len: IntLit(0)}, {C: isArr, O: o, Off: IntLit(0), Len: ln}}}
	}
	externals[pre+"GetInt64"] = func(ex *Exec, st *State, a []Value, x *ssa.Call) Value {
		return App("jint", SInt, ex.jPath(st, a[0].(*Term), a[1]))
	}
	externals[pre+"GetInt"] = externals[pre+"GetInt64"]
	externals[pre+"GetUint"] = func(ex *Exec, st *State, a []Value, x *ssa.Call) Value {
		r := App("juint", SInt, ex.jPath(st, a[0].(*Term), a[1]))
		ex.assume(Ge(r, IntLit(0)))
		return r
	}
	externals[pre+"GetUint64"] = externals[pre+"GetUint"]
	externals[pre+"GetFloat64"] = func(ex *Exec, st *State, a []Value, x *ssa.Call) Value {
		return App("jf64", SReal, ex.jPath(st, a[0].(*Term), a[1]))
	}
	externals[pre+"GetBool"] = func(ex *Exec, st *State, a []Value, x *ssa.Call) Value {
		v := ex.jPath(st, a[0].(*Term), a[1])
		return Eq(jType(v), IntLit(jTypeTrue))
	}
	externals[pre+"Bool"] = func(ex *Exec, st *State, a []Value, x *ssa.Call) Value {
		v := a[0].(*Term)
		ex.panicIf(st, Eq(v, jvNil), "nil-deref(*fastjson.Value).Bool", x.Pos())
		isT, isF := Eq(jType(v), IntLit(jTypeTrue)), Eq(jType(v), IntLit(jTypeFalse))
		e := freshErr(ex, "jbool")
		return &TupleVal{V: []Value{isT, Ite(Or(isT, isF), ErrNil, e)}}
	}
	externals[pre+"Object"] = func(ex *Exec, st *State, a []Value, x *ssa.Call) Value {
		v := a[0].(*Term)
		ex.panicIf(st, Eq(v, jvNil), "nil-deref(*fastjson.Value).Object", x.Pos())
		return ex.opaqueCall(st, "ext:(*fastjson.Value).Object", nil, a, x.Type())
	}
	// Visit calls f on every member: the callback is run once on an arbitrary key and a non-nil value, from an
	// arbitrary state of the variables it captures, which are arbitrary again afterwards (any number of calls)
	externals["(*fastjson.Object).Visit"] = func(ex *Exec, st *State, a []Value, x *ssa.Call) Value {
		fv, ok := a[1].(*FuncVal)
		if !ok {
			panic(unsupported("Visit with a non-function"))
		}
		for _, al := range fv.Alts {
			if al.Fn == nil {
				continue
			}
			run := func(from *State) *State {
				ex.objSeq++
				key := Var(fmt.Sprintf("visit.key!%d", ex.objSeq), SBytes)
				val := Var(fmt.Sprintf("visit.val!%d", ex.objSeq), jvSort)
				ex.assume(Neq(val, jvNil))
				sub := &State{pc: And(from.pc, al.C), env: from.env, heap: from.heap}
				ex.callStatic(sub, al.Fn, []Value{key, val}, al.Bind, nil)
				return sub
			}
			// first call: from the current state; it also tells which existing memory the callback writes
			nW, seq := len(ex.writes), ex.objSeq
			first := run(st.clone())
			_ = first
			seen := map[*Obj]bool{}
			var written []*Obj
			for _, wr := range ex.writes[nW:] {
				if (wr.O.id > seq && wr.O.fresh) || seen[wr.O] {
					continue
				}
				seen[wr.O] = true
				written = append(written, wr.O)
			}
			havoc := func() {
				for _, o := range written {
					st.heap[o] = ex.havocContent(o, "visit")
				}
			}
			// any later call: from an arbitrary content of that memory; arbitrary again afterwards
			havoc()
			sub := run(st)
			st.heap = sub.heap
			havoc()
		}
		return nil
	}
	externals["(*fastjson.Parser).ParseBytes"] = func(ex *Exec, st *State, a []Value, x *ssa.Call) Value {
		data := a[1].(*Term)
		v := App("jparse", jvSort, data)
		e := App("jparse.err", SErr, data)
		ex.assume(Implies(Eq(e, ErrNil), Neq(v, jvNil)))
		ex.assume(Implies(Neq(e, ErrNil), Eq(v, jvNil)))
		return &TupleVal{V: []Value{v, e}}
	}
	externals["(*fastjson.Parser).Parse"] = func(ex *Exec, st *State, a []Value, x *ssa.Call) Value {
		data := S2B(a[1].(*Term))
		v := App("jparse", jvSort, data)
		e := App("jparse.err", SErr, data)
		ex.assume(Implies(Eq(e, ErrNil), Neq(v, jvNil)))
		ex.assume(Implies(Neq(e, ErrNil), Eq(v, jvNil)))
		return &TupleVal{V: []Value{v, e}}
	}
}

// known substitutes facts the driver fixed for a term (e.g. the length of a JSON array).
func (ex *Exec) known(t *Term) *Term {
	if r, ok := ex.knownTerms[t]; ok {
		return r
	}
	return t
}

// ---------- encoding/gob (assumed contract, §4.3 of DESIGN.md) ----------
//
// Encoder.Encode(v) appends a fresh non-empty byte string gob(v) to its writer; the executor remembers
// which Go value (and static type) each such byte string stands for. Decoder.Decode(&x) on gob(v)
// succeeds exactly when v's type is identical to x's type and then stores v; on the empty input and on
// a value of another type it fails with a non-nil error and leaves x untouched; on bytes of unknown
// origin the outcome is unconstrained (an uninterpreted success flag and value).

type HostVal struct {
	Kind string
	V    Value
}

type gobEntry struct {
	T types.Type
	V Value
}

// bytesLeaves decomposes a byte-string term into its ite leaves with their conditions.
func bytesLeaves(t *Term, c *Term, f func(c, leaf *Term)) {
	if c == TFalse {
		return
	}
	if t.Op == "ite" {
		bytesLeaves(t.Args[1], And(c, t.Args[0]), f)
		bytesLeaves(t.Args[2], And(c, Not(t.Args[0])), f)
		return
	}
	f(c, t)
}

func (ex *Exec) gobRegister(T types.Type, v Value, tag string) *Term {
	t := Fresh("gob."+tag, SBytes)
	ex.assume(Gt(App("blen", SInt, t), IntLit(0)))
	if ex.gobReg == nil {
		ex.gobReg = map[*Term]gobEntry{}
	}
	ex.gobReg[t] = gobEntry{T, v}
	return t
}

// gobDecodeInto implements the assumed Decode contract for target pointer p of element type X.
func (ex *Exec) gobDecodeInto(st *State, data *Term, p *PtrVal, X types.Type, pos ssa.Instruction) *Term {
	var errT *Term = ErrNil
	failErr := freshErr(ex, "gobdecode")
	var stores []struct {
		c *Term
		v Value
	}
	bytesLeaves(data, TTrue, func(c, leaf *Term) {
		if e, ok := ex.gobReg[leaf]; ok {
			if gobCompatible(e.T, X) {
				stores = append(stores, struct {
					c *Term
					v Value
				}{c, e.V})
				return
			}
			errT = Ite(c, failErr, errT)
			return
		}
		if leaf == BytesNil || leaf == BytesLit("") || (leaf.Op == "app" && leaf.Name == "s2b") {
			// empty input, or the raw bytes of a string (an IRI written verbatim): not a gob stream
			errT = Ite(c, failErr, errT)
			return
		}
		// bytes of unknown origin
		okU := App("gob.ok."+typeName(X), SBool, leaf)
		v := ex.symValue(X, ufNamer("gob.dec."+typeName(X), leaf), false)
		stores = append(stores, struct {
			c *Term
			v Value
		}{And(c, okU), v})
		errT = Ite(And(c, Not(okU)), failErr, errT)
	})
	for _, s := range stores {
		sub := &State{pc: And(st.pc, s.c), env: st.env, heap: st.heap}
		if sub.pc == TFalse {
			continue
		}
		old := ex.load(sub, p, X, 0)
		ex.store(st, p, ex.merge(s.c, s.v, old), 0)
	}
	return errT
}

func init() {
	externals["gob.NewEncoder"] = func(ex *Exec, st *State, a []Value, x *ssa.Call) Value {
		return &HostVal{Kind: "gobenc", V: a[0]}
	}
	externals["gob.NewDecoder"] = func(ex *Exec, st *State, a []Value, x *ssa.Call) Value {
		return &HostVal{Kind: "gobdec", V: a[0]}
	}
	externals["bytes.NewReader"] = func(ex *Exec, st *State, a []Value, x *ssa.Call) Value {
		return &HostVal{Kind: "reader", V: a[0]}
	}
	externals["bytes.NewBuffer"] = func(ex *Exec, st *State, a []Value, x *ssa.Call) Value {
		o := ex.newObj("bytes.Buffer", OCell, nil)
		o.fresh = true
		st.heap[o] = a[0]
		return &PtrVal{Alts: []PtrAlt{{C: TTrue, O: o}}}
	}
	externals["(*gob.Encoder).Encode"] = func(ex *Exec, st *State, a []Value, x *ssa.Call) Value {
		enc, ok := a[0].(*HostVal)
		if !ok {
			panic(unsupported("gob encoder of unknown origin"))
		}
		w := enc.V.(*IfaceVal)
		iv := ex.normIface(a[1].(*IfaceVal))
		if len(iv.Alts) != 1 || iv.Alts[0].T == nil {
			panic(unsupported("gob Encode of a value with unknown static type"))
		}
		t := ex.gobRegister(iv.Alts[0].T, iv.Alts[0].V, typeName(iv.Alts[0].T))
		for _, al := range w.Alts {
			if p, ok := al.V.(*PtrVal); ok {
				cur := ex.load(st, p, nil, x.Pos()).(*Term)
				ex.store(st, p, BCat(cur, t), x.Pos())
			} else {
				panic(unsupported("gob encoder writing to a non-buffer writer"))
			}
		}
		ex.note("assumed contract: gob Encoder.Encode never fails and writes a non-empty stream that Decoder.Decode maps back to the same value iff the target type is identical")
		return ErrNil
	}
	externals["(*gob.Decoder).Decode"] = func(ex *Exec, st *State, a []Value, x *ssa.Call) Value {
		dec, ok := a[0].(*HostVal)
		if !ok {
			panic(unsupported("gob decoder of unknown origin"))
		}
		var data *Term
		switch r := dec.V.(type) {
		case *IfaceVal:
			for _, al := range ex.normIface(r).Alts {
				switch h := al.V.(type) {
				case *HostVal:
					data = h.V.(*Term)
				case *PtrVal:
					data = ex.load(st, h, nil, x.Pos()).(*Term)
				}
			}
		}
		if data == nil {
			panic(unsupported("gob decoder reading from an unknown reader"))
		}
		iv := ex.normIface(a[1].(*IfaceVal))
		if len(iv.Alts) != 1 || iv.Alts[0].T == nil {
			panic(unsupported("gob Decode into a value with unknown static type"))
		}
		pt, ok := iv.Alts[0].T.Underlying().(*types.Pointer)
		if !ok {
			return freshErr(ex, "gobdecode-nonpointer")
		}
		return ex.gobDecodeInto(st, data, iv.Alts[0].V.(*PtrVal), pt.Elem(), x)
	}
	externals["(time.Time).GobEncode"] = func(ex *Exec, st *State, a []Value, x *ssa.Call) Value {
		tt := x.Call.Args[0].Type()
		return &TupleVal{V: []Value{ex.gobRegister(tt, a[0], "time"), ErrNil}}
	}
	externals["(time.Time).MarshalBinary"] = externals["(time.Time).GobEncode"]
	externals["(*time.Time).GobDecode"] = func(ex *Exec, st *State, a []Value, x *ssa.Call) Value {
		pt := x.Call.Args[0].Type().Underlying().(*types.Pointer).Elem()
		return ex.gobDecodeInto(st, a[1].(*Term), a[0].(*PtrVal), pt, x)
	}
	externals["(*time.Time).UnmarshalBinary"] = externals["(*time.Time).GobDecode"]
}

// gobCompatible: gob matches values by wire kind, not by Go type name.
func gobCompatible(a, b types.Type) bool {
	a, b = a.Underlying(), b.Underlying()
	switch x := a.(type) {
	case *types.Slice:
		y, ok := b.(*types.Slice)
		return ok && gobCompatible(x.Elem(), y.Elem())
	case *types.Map:
		y, ok := b.(*types.Map)
		return ok && gobCompatible(x.Key(), y.Key()) && gobCompatible(x.Elem(), y.Elem())
	case *types.Basic:
		y, ok := b.(*types.Basic)
		if !ok {
			return false
		}
		ints := func(k *types.Basic) bool { return k.Info()&types.IsInteger != 0 && k.Info()&types.IsUnsigned == 0 }
		uints := func(k *types.Basic) bool { return k.Info()&types.IsUnsigned != 0 }
		return x.Kind() == y.Kind() || ints(x) && ints(y) || uints(x) && uints(y) || x.Info()&types.IsFloat != 0 && y.Info()&types.IsFloat != 0
	}
	return types.Identical(a, b)
}

// ---- net/url, path/filepath (assumed: deterministic total functions of their argument) -----------
//
// url.Parse(s) yields (urlOf(s), parseErr(s)); the components are uninterpreted functions of s. The
// query of a URL is modelled, for the bounded query obligations, by a driver-supplied finite multimap
// (ex.urlQueries); otherwise it is an opaque map.

var urlSort = Sort("O_P_url_URL")

func init() {
	parse := func(ex *Exec, st *State, a []Value, x *ssa.Call) Value {
		s := a[0].(*Term)
		u := App("urlOf", urlSort, s)
		e := App("urlParseErr", SErr, s)
		ex.assume(Implies(Eq(e, ErrNil), Neq(u, Lit(urlSort, "zero"))))
		return &TupleVal{V: []Value{u, e}}
	}
	externals["url.Parse"] = parse
	externals["url.ParseRequestURI"] = func(ex *Exec, st *State, a []Value, x *ssa.Call) Value {
		s := a[0].(*Term)
		u := App("urlOfRequestURI", urlSort, s)
		e := App("urlParseRequestURIErr", SErr, s)
		ex.assume(Implies(Eq(e, ErrNil), Neq(u, Lit(urlSort, "zero"))))
		return &TupleVal{V: []Value{u, e}}
	}
	externals["(*url.URL).Query"] = func(ex *Exec, st *State, a []Value, x *ssa.Call) Value {
		var q func(u *Term) Value
		q = func(u *Term) Value {
			if v, ok := ex.urlQueries[u]; ok {
				return v
			}
			if u.Op == "ite" {
				l, r := q(u.Args[1]), q(u.Args[2])
				if _, ok := l.(*MapVal); ok {
					if _, ok := r.(*MapVal); ok {
						return ex.merge(u.Args[0], l, r)
					}
					return l // the other branch is the nil URL, on which Query is never reached
				}
				if _, ok := r.(*MapVal); ok {
					return r
				}
			}
			return App("url.Query", sortOf(x.Type()), u)
		}
		return q(a[0].(*Term))
	}
	externals["(*url.URL).String"] = func(ex *Exec, st *State, a []Value, x *ssa.Call) Value {
		return App("url.String", SStr, a[0].(*Term))
	}
	externals["(*url.URL).Hostname"] = func(ex *Exec, st *State, a []Value, x *ssa.Call) Value {
		return App("url.Hostname", SStr, a[0].(*Term))
	}
	externals["filepath.Clean"] = func(ex *Exec, st *State, a []Value, x *ssa.Call) Value {
		return App("filepath.Clean", SStr, a[0].(*Term))
	}
	externals["strings.Index"] = func(ex *Exec, st *State, a []Value, x *ssa.Call) Value {
		r := App("strings.Index", SInt, a[0].(*Term), a[1].(*Term))
		ex.assume(And(Ge(r, IntLit(-1)), Le(r, SLen(a[0].(*Term)))))
		return r
	}
	externals["strings.Contains"] = func(ex *Exec, st *State, a []Value, x *ssa.Call) Value {
		return App("strings.Contains", SBool, a[0].(*Term), a[1].(*Term))
	}
}

// QueryModel: a finite multimap standing for url.Values: keys (symbolic strings, pairwise distinct
// by hypothesis) each with a concrete number of symbolic values.
type QueryModel struct {
	Keys []*Term
	Vals [][]*Term
}
