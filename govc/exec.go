package main

// Forward symbolic executor over go/ssa with state merging at joins.

import (
	"fmt"
	"go/constant"
	"go/token"
	"go/types"
	"sort"
	"strings"

	"golang.org/x/tools/go/ssa"
)

type PanicRec struct {
	C    *Term
	Kind string
	Pos  string
	Fn   string
}

type State struct {
	pc   *Term
	env  map[ssa.Value]Value
	heap map[*Obj]Value
}

func (s *State) clone() *State {
	n := &State{pc: s.pc, env: make(map[ssa.Value]Value, len(s.env)), heap: make(map[*Obj]Value, len(s.heap))}
	for k, v := range s.env {
		n.env[k] = v
	}
	for k, v := range s.heap {
		n.heap[k] = v
	}
	return n
}

type CallHook func(ex *Exec, st *State, fn *ssa.Function, args []Value) (Value, bool)

type Exec struct {
	prog      *ssa.Program
	pkg       *ssa.Package
	fset      *token.FileSet
	assumes   []*Term
	panics    []PanicRec
	notes     map[string]bool
	objSeq    int
	actSeq    int
	globals   map[*ssa.Global]*Obj
	initHeap  map[*Obj]Value
	initCache map[*Obj]Value
	hooks     map[string]CallHook
	matCache  map[string]Value
	concItems map[*Term]IfaceAlt
	absCache  map[string]*Term
	stack     []*ssa.Function
	maxDepth  int
	loopLimit int
	bounded   bool // set when a loop bound was exceeded and the residual path cut
	loopInfo  map[*ssa.Function]*loops
	trace     bool
	// stores performed (for frame obligations)
	writes []WriteRec
	curAct int
	// loop invariants supplied by contracts: key "Func#k"
	invariants    map[string]*LoopSpec
	sideObls      []SideObl
	inInit        bool
	knownTerms    map[*Term]*Term
	feasCache     map[*Term]bool
	abstractFns   map[string]bool
	inPlaceAppend bool // model append in place where Go guarantees it (see appendInPlace); off: always a fresh array
	urlQueries    map[*Term]Value
	gobReg        map[*Term]gobEntry
	world         *World
	symLoopBound  int
	jgetLog       [][2]*Term // (value, key) of every member lookup performed through the fastjson accessors
	jdocRoot      *Term      // document whose members are described by jdocLookup
	jdocLookup    func(name string) *Term
	allocs        []AllocRec // make() calls whose size is not a constant
	autoInv       bool       // cut loops of symbolic trip count without a written invariant by the trivial invariant (safety proofs)
	autoCuts      int
	unwindAssert  bool    // cut symbolic loops with an unwinding assertion instead of an assumption
	residuals     []*Term // path conditions of the cut iterations (must be unsatisfiable)
	maxSymUnroll  int
	feasQueries   int
	calls         []CallRec
}

// CallRec records an invocation of a hooked (contracted) function.
type CallRec struct {
	Name string
	C    *Term
	Args []Value
}

type WriteRec struct {
	C   *Term
	O   *Obj
	Pos string
	Fn  string
}

type SideObl struct {
	Name string
	Hyp  *Term
	Goal *Term
	Pos  string
}

func NewExec(prog *ssa.Program, pkg *ssa.Package) *Exec {
	ex := &Exec{prog: prog, pkg: pkg, fset: prog.Fset,
		notes: map[string]bool{}, globals: map[*ssa.Global]*Obj{}, initCache: map[*Obj]Value{},
		hooks: map[string]CallHook{}, matCache: map[string]Value{}, concItems: map[*Term]IfaceAlt{},
		absCache: map[string]*Term{}, maxDepth: 40, loopLimit: 80, loopInfo: map[*ssa.Function]*loops{},
		invariants: map[string]*LoopSpec{}, knownTerms: map[*Term]*Term{}}
	ex.symLoopBound = 3
	ex.urlQueries = map[*Term]Value{}
	ex.abstractFns = map[string]bool{"escapeQuote": true, "stringBytes": true, "unescape": true, "byteInsertAt": true}
	curExec = ex
	return ex
}

func (ex *Exec) assume(t *Term) {
	if t != TTrue {
		ex.assumes = append(ex.assumes, t)
	}
}
func (ex *Exec) note(s string) { ex.notes[s] = true }

func (ex *Exec) newObj(name string, k ObjKind, t types.Type) *Obj {
	ex.objSeq++
	return &Obj{id: ex.objSeq, name: name, kind: k, T: t, owner: ex.curAct}
}

func (ex *Exec) pos(p token.Pos) string {
	if !p.IsValid() {
		return "?"
	}
	ps := ex.fset.Position(p)
	f := ps.Filename
	if i := strings.LastIndex(f, "/"); i >= 0 {
		f = f[i+1:]
	}
	return fmt.Sprintf("%s:%d", f, ps.Line)
}

func (ex *Exec) panicIf(st *State, c *Term, kind string, p token.Pos) {
	cc := And(st.pc, c)
	if cc == TFalse {
		return
	}
	fn := ""
	if len(ex.stack) > 0 {
		fn = ex.stack[len(ex.stack)-1].RelString(ex.pkg.Pkg)
	}
	ex.panics = append(ex.panics, PanicRec{C: cc, Kind: kind, Pos: ex.pos(p), Fn: fn})
	// continue under the assumption that the panic did not happen
	st.pc = And(st.pc, Not(c))
}

// NoPanic is the conjunction "none of the recorded panics happened".
func (ex *Exec) NoPanic() *Term {
	var cs []*Term
	for _, p := range ex.panics {
		cs = append(cs, Not(p.C))
	}
	return And(cs...)
}

// ---------- heap ----------

func (ex *Exec) heapGet(st *State, o *Obj) Value {
	if v, ok := st.heap[o]; ok {
		return v
	}
	if v, ok := ex.initHeap[o]; ok {
		return v
	}
	if v, ok := ex.initCache[o]; ok {
		return v
	}
	var v Value
	if o.init != nil {
		v = o.init()
	} else {
		switch o.kind {
		case OCell:
			v = ex.zeroValue(o.T)
		default:
			panic("heapGet: array object without content")
		}
	}
	ex.initCache[o] = v
	return v
}

// initialOf: the pre-state content of an object that exists before the execution started.
func (ex *Exec) initialOf(o *Obj) (Value, bool) {
	if v, ok := ex.initHeap[o]; ok {
		return v, true
	}
	if v, ok := ex.initCache[o]; ok {
		return v, true
	}
	if o.init != nil {
		v := o.init()
		ex.initCache[o] = v
		return v, true
	}
	if o.fresh {
		return nil, false
	}
	if o.kind == OCell && o.T != nil {
		v := ex.zeroValue(o.T)
		ex.initCache[o] = v
		return v, true
	}
	return nil, false
}

func (ex *Exec) navigate(st *State, v Value, path []PathElem, o *Obj) Value {
	for i, pe := range path {
		if pe.Index != nil {
			switch a := v.(type) {
			case *ArrVal:
				v = ex.arrSelect(a, pe.Index)
			default:
				// lifted symbolic array
				v = ex.liftedSelect(v, pe.Index)
			}
			_ = i
			continue
		}
		sv, ok := v.(*StructVal)
		if !ok {
			panic(fmt.Sprintf("navigate: field %d of %T in %s", pe.Field, v, o))
		}
		if pe.Field >= len(sv.F) {
			ex.note(fmt.Sprintf("view reads field %d beyond the %d fields of %s: unknown memory", pe.Field, len(sv.F), typeName(sv.T)))
			ex.objSeq++
			return &oobVal{}
		}
		v = sv.F[pe.Field]
	}
	return v
}

func (ex *Exec) arrSelect(a *ArrVal, idx *Term) Value {
	if n, ok := idx.IntVal(); ok {
		if n < 0 || int(n) >= len(a.E) {
			return &oobVal{} // the bounds violation itself is recorded as a panic condition by the caller
		}
		return a.E[n]
	}
	var r Value
	for i := len(a.E) - 1; i >= 0; i-- {
		if r == nil {
			r = a.E[i]
		} else {
			r = ex.merge(Eq(idx, IntLit(int64(i))), a.E[i], r)
		}
	}
	return r
}

func (ex *Exec) liftedSelect(v Value, idx *Term) Value {
	switch x := v.(type) {
	case *Term:
		if x.S == ArraySort(SItem) {
			return &IfaceVal{Alts: []IfaceAlt{{C: TTrue, Opaque: Select(x, idx)}}}
		}
		return Select(x, idx)
	case *StructVal:
		r := &StructVal{T: x.T, F: make([]Value, len(x.F))}
		for i := range x.F {
			r.F[i] = ex.liftedSelect(x.F[i], idx)
		}
		return r
	}
	panic(fmt.Sprintf("liftedSelect %T", v))
}

func (ex *Exec) liftedStore(v Value, idx *Term, nv Value) Value {
	switch x := v.(type) {
	case *Term:
		if x.S == ArraySort(SItem) {
			return Store(x, idx, ex.abstractItem(nv.(*IfaceVal)))
		}
		return Store(x, idx, nv.(*Term))
	case *StructVal:
		y := nv.(*StructVal)
		r := &StructVal{T: x.T, F: make([]Value, len(x.F))}
		for i := range x.F {
			r.F[i] = ex.liftedStore(x.F[i], idx, y.F[i])
		}
		return r
	}
	panic(fmt.Sprintf("liftedStore %T", v))
}

// update returns v with the sub-value at path replaced by f(old).
func (ex *Exec) update(v Value, path []PathElem, f func(old Value) Value) Value {
	if len(path) == 0 {
		return f(v)
	}
	pe := path[0]
	if pe.Index != nil {
		switch a := v.(type) {
		case *ArrVal:
			r := &ArrVal{E: append([]Value(nil), a.E...)}
			if n, ok := pe.Index.IntVal(); ok {
				if n < 0 || int(n) >= len(a.E) {
					return a // out-of-range store: recorded as a panic condition by the caller
				}
				r.E[n] = ex.update(a.E[n], path[1:], f)
				return r
			}
			for i := range r.E {
				r.E[i] = ex.merge(Eq(pe.Index, IntLit(int64(i))), ex.update(a.E[i], path[1:], f), a.E[i])
			}
			return r
		default:
			old := ex.liftedSelect(v, pe.Index)
			return ex.liftedStore(v, pe.Index, ex.update(old, path[1:], f))
		}
	}
	sv := v.(*StructVal)
	if pe.Field >= len(sv.F) {
		panic(unsupported(fmt.Sprintf("view writes field %d beyond the %d fields of %s", pe.Field, len(sv.F), typeName(sv.T))))
	}
	r := &StructVal{T: sv.T, F: append([]Value(nil), sv.F...)}
	r.F[pe.Field] = ex.update(sv.F[pe.Field], path[1:], f)
	return r
}

// asType adapts a loaded struct value to the static type expected by a view.
func (ex *Exec) asType(v Value, t types.Type) Value {
	if t == nil {
		return v
	}
	sv, ok := v.(*StructVal)
	if !ok {
		return v
	}
	st, ok := t.Underlying().(*types.Struct)
	if !ok {
		return v
	}
	if types.Identical(sv.T, t) {
		return v
	}
	if st.NumFields() > len(sv.F) {
		// widening view (a failed C08 obligation): the extra fields read memory outside the value
		ex.note(fmt.Sprintf("view of %s as wider %s: fields beyond the value read unknown memory", typeName(sv.T), typeName(t)))
		f := append([]Value(nil), sv.F...)
		for i := len(sv.F); i < st.NumFields(); i++ {
			ex.objSeq++
			f = append(f, ex.symValue(st.Field(i).Type(), varNamer(fmt.Sprintf("oob!%d.%s", ex.objSeq, st.Field(i).Name())), false))
		}
		return &StructVal{T: t, F: f}
	}
	return &StructVal{T: t, F: sv.F[:st.NumFields()]}
}

func (ex *Exec) load(st *State, p *PtrVal, t types.Type, pos token.Pos) Value {
	var r Value
	var rc *Term = TFalse
	for _, al := range p.Alts {
		if al.O == nil {
			ex.panicIf(st, al.C, "nil-deref", pos)
			continue
		}
		if And(st.pc, al.C) == TFalse {
			continue
		}
		v := ex.navigate(st, ex.heapGet(st, al.O), al.Path, al.O)
		v = ex.asType(v, t)
		if r == nil {
			r, rc = v, al.C
		} else {
			r = ex.merge(al.C, v, r)
			rc = Or(rc, al.C)
		}
	}
	if r == nil {
		// unreachable load (all alternatives nil): give a harmless value
		return ex.zeroValue(t)
	}
	return r
}

func (ex *Exec) store(st *State, p *PtrVal, v Value, pos token.Pos) {
	for _, al := range p.Alts {
		if al.O == nil {
			ex.panicIf(st, al.C, "nil-deref", pos)
			continue
		}
		g := And(st.pc, al.C)
		if g == TFalse {
			continue
		}
		if al.O.readonly {
			panic(unsupported("in-place mutation of a byte slice at " + ex.pos(pos)))
		}
		fn := ""
		if len(ex.stack) > 0 {
			fn = ex.stack[len(ex.stack)-1].RelString(ex.pkg.Pkg)
		}
		ex.writes = append(ex.writes, WriteRec{C: g, O: al.O, Pos: ex.pos(pos), Fn: fn})
		old := ex.heapGet(st, al.O)
		alC := al.C
		nv := ex.update(old, al.Path, func(o Value) Value {
			vv := v
			if osv, ok := o.(*StructVal); ok {
				if nsv, ok := v.(*StructVal); ok && len(nsv.F) < len(osv.F) {
					// store through a narrower view: only the prefix is overwritten
					f := append([]Value(nil), osv.F...)
					copy(f, nsv.F)
					vv = &StructVal{T: osv.T, F: f}
				} else if ok && len(nsv.F) > len(osv.F) {
					ex.note("store through a widening view: fields beyond the value are dropped (they would overwrite unrelated memory)")
					vv = &StructVal{T: osv.T, F: nsv.F[:len(osv.F)]}
				} else if ok {
					vv = &StructVal{T: osv.T, F: nsv.F}
				}
			}
			if alC == TTrue || len(p.Alts) == 1 {
				return vv
			}
			return ex.merge(alC, vv, o)
		})
		st.heap[al.O] = nv
	}
}

// AllocRec: a make([]T, len, cap) whose size depends on the state.
type AllocRec struct {
	C        *Term
	Len, Cap *Term
	Pos      string
}

// ---------- loops ----------

// headerCondSymbolic: does the loop header branch on a condition that is not decided in the entry state?
func (ex *Exec) headerCondSymbolic(fr *frame, lp *loop, st *State) bool {
	h := lp.header
	nP, nW, nC, nS, nA := len(ex.panics), len(ex.writes), len(ex.calls), len(ex.sideObls), len(ex.assumes)
	savedEdges := map[[2]int]*State{}
	for k, v := range fr.edges {
		savedEdges[k] = v
	}
	savedCond, had := fr.ifCond[h.Index]
	s := st.clone()
	ex.evalPhis(fr, h, s, func(p *ssa.BasicBlock) bool { return !lp.body[p] })
	delete(fr.ifCond, h.Index)
	ex.execBlock(fr, h, s, func() {})
	hc := fr.ifCond[h.Index]
	sym := hc != nil && !hc.IsLit()
	ex.panics, ex.writes, ex.calls, ex.sideObls, ex.assumes = ex.panics[:nP], ex.writes[:nW], ex.calls[:nC], ex.sideObls[:nS], ex.assumes[:nA]
	for k := range fr.edges {
		delete(fr.edges, k)
	}
	for k, v := range savedEdges {
		fr.edges[k] = v
	}
	if had {
		fr.ifCond[h.Index] = savedCond
	} else {
		delete(fr.ifCond, h.Index)
	}
	return sym
}

type loop struct {
	header *ssa.BasicBlock
	body   map[*ssa.BasicBlock]bool
	parent *loop
	ord    int
}

type loops struct {
	byHeader map[*ssa.BasicBlock]*loop
	inner    map[*ssa.BasicBlock]*loop // innermost loop containing block
	rpo      []*ssa.BasicBlock
	rpoIdx   map[*ssa.BasicBlock]int
}

func (ex *Exec) loopsOf(fn *ssa.Function) *loops {
	if l, ok := ex.loopInfo[fn]; ok {
		return l
	}
	li := &loops{byHeader: map[*ssa.BasicBlock]*loop{}, inner: map[*ssa.BasicBlock]*loop{}, rpoIdx: map[*ssa.BasicBlock]int{}}
	// reverse postorder
	seen := map[*ssa.BasicBlock]bool{}
	var post []*ssa.BasicBlock
	var dfs func(b *ssa.BasicBlock)
	dfs = func(b *ssa.BasicBlock) {
		seen[b] = true
		for _, s := range b.Succs {
			if !seen[s] {
				dfs(s)
			}
		}
		post = append(post, b)
	}
	if len(fn.Blocks) > 0 {
		dfs(fn.Blocks[0])
	}
	for i := len(post) - 1; i >= 0; i-- {
		li.rpoIdx[post[i]] = len(li.rpo)
		li.rpo = append(li.rpo, post[i])
	}
	// natural loops
	for _, b := range li.rpo {
		for _, s := range b.Succs {
			if s.Dominates(b) { // back edge b->s
				l := li.byHeader[s]
				if l == nil {
					l = &loop{header: s, body: map[*ssa.BasicBlock]bool{s: true}}
					li.byHeader[s] = l
				}
				var stack []*ssa.BasicBlock
				if !l.body[b] {
					l.body[b] = true
					stack = append(stack, b)
				}
				for len(stack) > 0 {
					x := stack[len(stack)-1]
					stack = stack[:len(stack)-1]
					for _, p := range x.Preds {
						if !l.body[p] && seen[p] {
							l.body[p] = true
							stack = append(stack, p)
						}
					}
				}
			}
		}
	}
	// ordinals in source order of headers, nesting
	var hs []*loop
	for _, l := range li.byHeader {
		hs = append(hs, l)
	}
	sort.Slice(hs, func(i, j int) bool { return li.rpoIdx[hs[i].header] < li.rpoIdx[hs[j].header] })
	for i, l := range hs {
		l.ord = i
	}
	for _, l := range hs {
		for b := range l.body {
			cur := li.inner[b]
			if cur == nil || len(l.body) < len(cur.body) {
				li.inner[b] = l
			}
		}
	}
	for _, l := range hs {
		for _, m := range hs {
			if m != l && m.body[l.header] && (l.parent == nil || len(m.body) < len(l.parent.body)) {
				l.parent = m
			}
		}
	}
	ex.loopInfo[fn] = li
	return li
}

// ---------- function execution ----------

type frame struct {
	fn     *ssa.Function
	act    int
	edges  map[[2]int]*State // (from,to) -> state on that edge
	retC   *Term
	retV   Value
	retH   map[*Obj]Value
	li     *loops
	bind   []Value
	params []Value
	ifCond map[int]*Term
}

func (ex *Exec) mergeStates(a, b *State) *State {
	if a == nil {
		return b
	}
	if b == nil {
		return a
	}
	c := b.pc // choose b's values when b's path was taken
	r := &State{pc: Or(a.pc, b.pc), env: make(map[ssa.Value]Value, len(a.env)), heap: make(map[*Obj]Value, len(a.heap))}
	for k, va := range a.env {
		if vb, ok := b.env[k]; ok {
			if va == vb {
				r.env[k] = va
			} else {
				r.env[k] = ex.merge(c, vb, va)
			}
		} else {
			r.env[k] = va
		}
	}
	for k, vb := range b.env {
		if _, ok := a.env[k]; !ok {
			r.env[k] = vb
		}
	}
	for k, va := range a.heap {
		if vb, ok := b.heap[k]; ok {
			if va == vb {
				r.heap[k] = va
			} else {
				r.heap[k] = ex.merge(c, vb, va)
			}
		} else if iv, ok := ex.initialOf(k); ok {
			// b never touched k: its value there is the initial one
			r.heap[k] = ex.merge(c, iv, va)
		} else {
			r.heap[k] = va // allocated on a's path only: unreachable from b
		}
	}
	for k, vb := range b.heap {
		if _, ok := a.heap[k]; !ok {
			if iv, ok := ex.initialOf(k); ok {
				r.heap[k] = ex.merge(c, vb, iv)
			} else {
				r.heap[k] = vb
			}
		}
	}
	return r
}

// Call executes fn on args starting from st (pc and heap are used; env is fresh).
// It returns the result value; st.heap is updated to the merged final heap.
func (ex *Exec) Call(st *State, fn *ssa.Function, args []Value, bind []Value) Value {
	if len(fn.Blocks) == 0 {
		panic(unsupported("call to function without body: " + fn.String()))
	}
	if len(ex.stack) >= ex.maxDepth {
		panic(unsupported("inlining depth exceeded at " + fn.String()))
	}
	cnt := 0
	for _, f := range ex.stack {
		if f == fn {
			cnt++
		}
	}
	// a direct self-call (ItemsEqual's swap, IsNil through its fallback) is checked for feasibility at once;
	// helpers that legitimately nest (OnObject inside an OnObject callback) only from the second nesting on
	direct := len(ex.stack) > 0 && (ex.stack[len(ex.stack)-1] == fn || fn.Name() == "ItemsEqual" || fn.Name() == "IsNil")
	_ = direct
	if cnt >= 1 && !ex.feasible(st.pc) {
		// infeasible path reached a recursive call: prune it
		st.pc = TFalse
		return ex.zeroOfResult(fn.Signature.Results())
	}
	if cnt >= 5 {
		panic(unsupported("unbounded recursion without contract: " + fn.String()))
	}
	ex.stack = append(ex.stack, fn)
	ex.actSeq++
	savedAct := ex.curAct
	ex.curAct = ex.actSeq
	defer func() { ex.stack = ex.stack[:len(ex.stack)-1]; ex.curAct = savedAct }()

	fr := &frame{fn: fn, act: ex.actSeq, edges: map[[2]int]*State{}, retC: TFalse, li: ex.loopsOf(fn), bind: bind, params: args, ifCond: map[int]*Term{}}
	entry := &State{pc: st.pc, env: map[ssa.Value]Value{}, heap: st.heap}
	for i, p := range fn.Params {
		entry.env[p] = args[i]
	}
	for i, fv := range fn.FreeVars {
		entry.env[fv] = bind[i]
	}
	fr.edges[[2]int{-1, 0}] = entry
	ex.execBlocks(fr, fr.li.rpo, nil)
	if fr.retH == nil {
		// function never returns on feasible paths (always panics)
		st.pc = TFalse
		res := fn.Signature.Results()
		switch res.Len() {
		case 0:
			return nil
		case 1:
			return ex.zeroValue(res.At(0).Type())
		}
		tv := &TupleVal{}
		for i := 0; i < res.Len(); i++ {
			tv.V = append(tv.V, ex.zeroValue(res.At(i).Type()))
		}
		return tv
	}
	st.heap = fr.retH
	// paths on which the callee neither returned nor was cut are infeasible (they panicked)
	st.pc = And(st.pc, fr.retC)
	if st.pc != TFalse {
		st.pc = simplifyUnder(st.pc)
	}
	return fr.retV
}

func simplifyUnder(t *Term) *Term { return t }

// execBlocks runs the given blocks (in RPO order) that belong to region `in` (nil = all).
func (ex *Exec) execBlocks(fr *frame, order []*ssa.BasicBlock, in *loop) {
	for _, b := range order {
		if in != nil && !in.body[b] {
			continue
		}
		lp := fr.li.inner[b]
		if lp != in {
			// b belongs to a loop nested (directly or not) in `in`: run it when we meet its header
			top := lp
			for top != nil && top.parent != in {
				top = top.parent
			}
			if top != nil && top.header == b {
				ex.execLoop(fr, top)
			}
			continue
		}
		if in != nil && b == in.header {
			continue // executed by execLoop itself
		}
		st := ex.incoming(fr, b, nil)
		if st == nil {
			continue
		}
		ex.execBlock(fr, b, st, nil)
	}
}

// incoming merges the edge states into b; filter selects which predecessor edges count.
func (ex *Exec) incoming(fr *frame, b *ssa.BasicBlock, filter func(p *ssa.BasicBlock) bool) *State {
	var st *State
	if b.Index == 0 {
		if e, ok := fr.edges[[2]int{-1, 0}]; ok {
			st = e
		}
	}
	for _, p := range b.Preds {
		if filter != nil && !filter(p) {
			continue
		}
		e := fr.edges[[2]int{p.Index, b.Index}]
		if e == nil || e.pc == TFalse {
			continue
		}
		st = ex.mergeStates(st, e)
	}
	return st
}

func (ex *Exec) evalPhis(fr *frame, b *ssa.BasicBlock, st *State, filter func(p *ssa.BasicBlock) bool) {
	for _, ins := range b.Instrs {
		phi, ok := ins.(*ssa.Phi)
		if !ok {
			break
		}
		var r Value
		for i, p := range b.Preds {
			if filter != nil && !filter(p) {
				continue
			}
			e := fr.edges[[2]int{p.Index, b.Index}]
			if e == nil || e.pc == TFalse {
				continue
			}
			v := ex.operand(e, phi.Edges[i])
			if r == nil {
				r = v
			} else {
				r = ex.merge(e.pc, v, r)
			}
		}
		st.env[phi] = r
	}
}

func (ex *Exec) execLoop(fr *frame, lp *loop) {
	h := lp.header
	outside := func(p *ssa.BasicBlock) bool { return !lp.body[p] }
	inside := func(p *ssa.BasicBlock) bool { return lp.body[p] }
	key := fmt.Sprintf("%s#%d", fr.fn.RelString(ex.pkg.Pkg), lp.ord)
	if spec, ok := ex.invariants[key]; ok {
		ex.execLoopInvariant(fr, lp, spec, key)
		return
	}
	st := ex.incoming(fr, h, outside)
	if st == nil {
		return
	}
	if ex.autoInv && st.pc != TFalse && ex.headerCondSymbolic(fr, lp, st) {
		// safety-only cut: the loop state is arbitrary except that a range index is at least -1
		spec := &LoopSpec{Key: key, Auto: true}
		for _, ins := range h.Instrs {
			p, ok := ins.(*ssa.Phi)
			if !ok {
				break
			}
			if p.Comment == "rangeindex" {
				e, _ := parseSExpr("(<= -1 rangeindex)")
				spec.Inv = append(spec.Inv, e)
			}
		}
		ex.autoCuts++
		ex.execLoopInvariant(fr, lp, spec, key)
		return
	}
	filter := outside
	// exit edge accumulators
	exits := map[[2]int]*State{}
	var bodyOrder []*ssa.BasicBlock
	for _, b := range fr.li.rpo {
		if lp.body[b] {
			bodyOrder = append(bodyOrder, b)
		}
	}
	symIters := 0
	for iter := 0; ; iter++ {
		if iter > ex.loopLimit {
			ex.bounded = true
			ex.note(fmt.Sprintf("loop %s cut after %d iterations (residual path assumed away: bounded)", key, ex.loopLimit))
			break
		}
		if symIters > ex.symLoopBound && ex.unwindAssert {
			// unwinding assertion: the caller proves that no execution needs another iteration
			ex.residuals = append(ex.residuals, st.pc)
			break
		}
		if symIters > ex.symLoopBound {
			ex.bounded = true
			if ex.symLoopBound > ex.maxSymUnroll {
				ex.maxSymUnroll = ex.symLoopBound
			}
			ex.note(fmt.Sprintf("loop %s with symbolic trip count unrolled %d times (residual path assumed away: bounded)", key, ex.symLoopBound))
			break
		}
		// clear intra-loop edges
		for _, b := range bodyOrder {
			for _, s := range b.Succs {
				if lp.body[s] {
					delete(fr.edges, [2]int{b.Index, s.Index})
				}
			}
		}
		hst := st.clone()
		if iter == 0 {
			ex.evalPhis(fr, h, hst, filter)
		} else {
			// phis were evaluated from the back edges below
		}
		delete(fr.ifCond, h.Index)
		ex.execBlock(fr, h, hst, func() {})
		if hc := fr.ifCond[h.Index]; hc != nil && !hc.IsLit() {
			symIters++
		}
		ex.execBlocks(fr, bodyOrder, lp)
		// collect exits
		for _, b := range bodyOrder {
			for _, s := range b.Succs {
				if !lp.body[s] {
					k := [2]int{b.Index, s.Index}
					if e := fr.edges[k]; e != nil && e.pc != TFalse {
						exits[k] = ex.mergeStates(exits[k], e)
						delete(fr.edges, k)
					}
				}
			}
		}
		// next iteration state from back edges
		next := ex.incoming(fr, h, inside)
		if next == nil || next.pc == TFalse {
			break
		}
		next = next.clone()
		// evaluate header phis from back edges before they are cleared
		ex.evalPhis(fr, h, next, inside)
		st = next
		filter = inside
	}
	for k, e := range exits {
		fr.edges[k] = e
	}
}

// execBlock executes the instructions of b from state st and records the outgoing edges.
// skipPhis non-nil means phis have already been evaluated into st.env.
func (ex *Exec) execBlock(fr *frame, b *ssa.BasicBlock, st *State, skipPhis func()) {
	if skipPhis == nil {
		st = st.clone()
		ex.evalPhis(fr, b, st, nil)
	}
	for _, ins := range b.Instrs {
		if _, ok := ins.(*ssa.Phi); ok {
			continue
		}
		if st.pc == TFalse {
			return
		}
		switch x := ins.(type) {
		case *ssa.If:
			c := ex.operand(st, x.Cond).(*Term)
			fr.ifCond[b.Index] = c
			t := &State{pc: And(st.pc, c), env: st.env, heap: st.heap}
			f := &State{pc: And(st.pc, Not(c)), env: st.env, heap: st.heap}
			fr.edges[[2]int{b.Index, b.Succs[0].Index}] = t
			if b.Succs[0] == b.Succs[1] {
				fr.edges[[2]int{b.Index, b.Succs[0].Index}] = st
			} else {
				fr.edges[[2]int{b.Index, b.Succs[1].Index}] = f
			}
			return
		case *ssa.Jump:
			fr.edges[[2]int{b.Index, b.Succs[0].Index}] = st
			return
		case *ssa.Return:
			var rv Value
			switch len(x.Results) {
			case 0:
			case 1:
				rv = ex.operand(st, x.Results[0])
			default:
				tv := &TupleVal{}
				for _, r := range x.Results {
					tv.V = append(tv.V, ex.operand(st, r))
				}
				rv = tv
			}
			if fr.retH == nil {
				fr.retC, fr.retV, fr.retH = st.pc, rv, st.heap
			} else {
				a := &State{pc: fr.retC, env: map[ssa.Value]Value{}, heap: fr.retH}
				bb := &State{pc: st.pc, env: map[ssa.Value]Value{}, heap: st.heap}
				m := ex.mergeStates(a, bb)
				if rv != nil {
					fr.retV = ex.merge(st.pc, rv, fr.retV)
				}
				fr.retC, fr.retH = m.pc, m.heap
			}
			return
		case *ssa.Panic:
			ex.panicIf(st, TTrue, "explicit-panic", x.Pos())
			return
		default:
			ex.execInstr(fr, st, ins)
		}
	}
}

func (ex *Exec) operand(st *State, v ssa.Value) Value {
	switch x := v.(type) {
	case *ssa.Const:
		return ex.constValue(x)
	case *ssa.Global:
		return &PtrVal{Alts: []PtrAlt{{C: TTrue, O: ex.globalObj(x)}}}
	case *ssa.Function:
		return &FuncVal{Alts: []FuncAlt{{C: TTrue, Fn: x}}}
	case *ssa.Builtin:
		panic(unsupported("builtin as value " + x.Name()))
	}
	r, ok := st.env[v]
	if !ok {
		panic(fmt.Sprintf("operand %s (%T) undefined in %s", v.Name(), v, v.Parent()))
	}
	return r
}

func (ex *Exec) globalObj(g *ssa.Global) *Obj {
	if o, ok := ex.globals[g]; ok {
		return o
	}
	el := g.Type().(*types.Pointer).Elem()
	o := &Obj{id: -len(ex.globals) - 1, name: "global:" + g.Name(), kind: OCell, T: el}
	if g.Pkg != ex.pkg {
		// foreign global: unknown content
		name := g.Pkg.Pkg.Name() + "." + g.Name()
		o.init = func() Value { return ex.symValue(el, varNamer("G:"+name), false) }
	}
	ex.globals[g] = o
	return o
}

func (ex *Exec) constValue(c *ssa.Const) Value {
	t := c.Type()
	if c.Value == nil {
		return ex.zeroValue(t)
	}
	switch classify(t) {
	case KBool:
		return BoolLit(constant.BoolVal(c.Value))
	case KInt:
		if n, ok := constant.Int64Val(constant.ToInt(c.Value)); ok {
			return IntLit(n)
		}
		if n, ok := constant.Uint64Val(constant.ToInt(c.Value)); ok {
			return mk("int", fmt.Sprint(n), SInt)
		}
	case KFloat:
		f, _ := constant.Float64Val(c.Value)
		s := fmt.Sprintf("%f", f)
		if f < 0 {
			return mk("real", fmt.Sprintf("(- %f)", -f), SReal)
		}
		return mk("real", s, SReal)
	case KStr:
		return StrLit(constant.StringVal(c.Value))
	}
	panic(unsupported("constant " + c.String()))
}

// oobVal marks a read outside the viewed value; using it is outside the subset.
type oobVal struct{}

// feasible asks a solver whether the path condition is satisfiable together with the assumptions.
// Unknown counts as feasible. Results are cached per term.
func (ex *Exec) feasible(pc *Term) bool {
	if pc == TFalse {
		return false
	}
	if pc == TTrue {
		return true
	}
	if pc.open {
		return true // evaluated under a contract quantifier: no closed query can be asked
	}
	if ex.feasCache == nil {
		ex.feasCache = map[*Term]bool{}
	}
	if r, ok := ex.feasCache[pc]; ok {
		return r
	}
	sc := &Script{Asserts: append([]*Term{pc}, ex.assumes...)}
	body := sc.Render(allAxioms)
	ex.feasQueries++
	res := quickSat(body)
	ex.feasCache[pc] = res
	return res
}
