package main

import (
	"fmt"
	"go/types"
	"os"
	"regexp"
	"sort"
	"strings"

	"golang.org/x/tools/go/ssa"
)

// itemTypes: all concrete in-package types (T and *T) that implement LinkOrIRI.
var itemTypesCache []types.Type

func (ex *Exec) itemTypes() []types.Type {
	if itemTypesCache != nil {
		return itemTypesCache
	}
	scope := ex.pkg.Pkg.Scope()
	lo := scope.Lookup("LinkOrIRI")
	if lo == nil {
		panic("LinkOrIRI not found")
	}
	iface := lo.Type().Underlying().(*types.Interface)
	names := scope.Names()
	sort.Strings(names)
	for _, n := range names {
		tn, ok := scope.Lookup(n).(*types.TypeName)
		if !ok || tn.IsAlias() {
			continue
		}
		t := tn.Type()
		if _, isIf := t.Underlying().(*types.Interface); isIf {
			continue
		}
		if named, ok := t.(*types.Named); ok && named.TypeParams().Len() > 0 {
			continue
		}
		if types.Implements(t, iface) {
			itemTypesCache = append(itemTypesCache, t)
		}
		if pt := types.NewPointer(t); types.Implements(pt, iface) {
			itemTypesCache = append(itemTypesCache, pt)
		}
	}
	return itemTypesCache
}

// normIface expands opaque alternatives whose term is an ite or a registered concrete item.
func (ex *Exec) normIface(iv *IfaceVal) *IfaceVal {
	need := false
	for _, al := range iv.Alts {
		if al.Opaque != nil {
			if _, ok := ex.concItems[al.Opaque]; ok || al.Opaque.Op == "ite" {
				need = true
			}
		}
	}
	if !need {
		return iv
	}
	r := &IfaceVal{}
	var add func(c *Term, t *Term)
	add = func(c *Term, t *Term) {
		if c == TFalse {
			return
		}
		if ca, ok := ex.concItems[t]; ok {
			r.Alts = append(r.Alts, IfaceAlt{C: c, T: ca.T, V: ca.V})
			return
		}
		if t.Op == "ite" {
			add(And(c, t.Args[0]), t.Args[1])
			add(And(c, Not(t.Args[0])), t.Args[2])
			return
		}
		r.Alts = append(r.Alts, IfaceAlt{C: c, Opaque: t})
	}
	for _, al := range iv.Alts {
		if al.Opaque != nil {
			add(al.C, al.Opaque)
		} else {
			r.Alts = append(r.Alts, al)
		}
	}
	return r
}

var NilItem = Var("nilItem", SItem)

// abstractItem turns an interface value into a term of sort Item.
func (ex *Exec) abstractItem(iv *IfaceVal) *Term {
	var r *Term
	for _, al := range iv.Alts {
		t := ex.abstractAlt(al)
		if r == nil {
			r = t
		} else {
			r = Ite(al.C, t, r)
		}
	}
	return r
}

func (ex *Exec) abstractAlt(al IfaceAlt) *Term {
	if al.Opaque != nil {
		return al.Opaque
	}
	if al.T == nil {
		ex.assume(Eq(tagOfItem(NilItem), TagNil))
		return NilItem
	}
	// key by dynamic type and payload identity
	key := typeName(al.T) + "|" + valueKey(al.V)
	if t, ok := ex.absCache[key]; ok {
		return t
	}
	t := Fresh("it", SItem)
	ex.assume(Eq(tagOfItem(t), TagOf(al.T)))
	ex.absCache[key] = t
	ex.concItems[t] = IfaceAlt{C: TTrue, T: al.T, V: al.V}
	// link scalar payloads so that UF-level reasoning sees them
	if s, ok := al.V.(*Term); ok && s.S == SStr {
		ex.assume(Eq(App("item.str", SStr, t), s))
	}
	return t
}

func valueKey(v Value) string {
	switch x := v.(type) {
	case *Term:
		return fmt.Sprintf("t%d", x.id)
	case *PtrVal:
		var b strings.Builder
		for _, al := range x.Alts {
			fmt.Fprintf(&b, "p(%d,%v,", al.C.id, al.O)
			for _, pe := range al.Path {
				if pe.Index != nil {
					fmt.Fprintf(&b, "[%d]", pe.Index.id)
				} else {
					fmt.Fprintf(&b, ".%d", pe.Field)
				}
			}
			b.WriteString(")")
		}
		return b.String()
	}
	return fmt.Sprintf("%p", v)
}

// materialise gives the payload of opaque item x assuming its dynamic type is t.
func (ex *Exec) materialise(x *Term, t types.Type) Value {
	key := fmt.Sprintf("%d|%s", x.id, typeName(t))
	if v, ok := ex.matCache[key]; ok {
		return v
	}
	var v Value
	switch classify(t) {
	case KPtr:
		el := t.Underlying().(*types.Pointer).Elem()
		isnil := App("ptrnil", SBool, x)
		o := ex.newObj("mat:"+typeName(t)+":"+x.String(), OCell, el)
		o.owner = 0
		o.init = func() Value { return ex.symValue(el, ufNamer(typeName(el), x), false) }
		v = &PtrVal{Alts: []PtrAlt{{C: isnil}, {C: Not(isnil), O: o}}}
	case KStr:
		v = App("item.str", SStr, x)
	default:
		v = ex.symValue(t, ufNamer(typeName(t), x), false)
	}
	ex.matCache[key] = v
	return v
}

// ---------- calls ----------

func (ex *Exec) call(fr *frame, st *State, x *ssa.Call) Value {
	cc := x.Common()
	var args []Value
	for _, a := range cc.Args {
		args = append(args, ex.operand(st, a))
	}
	if cc.IsInvoke() {
		recv := ex.operand(st, cc.Value)
		return ex.invoke(st, recv, cc.Method, args, x)
	}
	switch f := cc.Value.(type) {
	case *ssa.Builtin:
		return ex.builtin(st, f, args, x)
	case *ssa.Function:
		return ex.callStatic(st, f, args, nil, x)
	}
	fv := ex.operand(st, cc.Value).(*FuncVal)
	return ex.callFuncVal(st, fv, args, x)
}

func resultType(x *ssa.Call) types.Type { return x.Type() }

func (ex *Exec) callFuncVal(st *State, fv *FuncVal, args []Value, x *ssa.Call) Value {
	var res Value
	var heaps []*State
	basePC := st.pc
	for _, al := range fv.Alts {
		g := And(basePC, al.C)
		if g == TFalse {
			continue
		}
		sub := &State{pc: g, env: st.env, heap: st.heap}
		var r Value
		switch {
		case al.Native != nil:
			r = al.Native(ex, sub, args)
		case al.Fn != nil:
			r = ex.callStatic(sub, al.Fn, args, al.Bind, x)
		case al.Opaque != nil:
			r = ex.opaqueCall(sub, "callfn", []*Term{al.Opaque}, args, x.Type())
		default:
			ex.panicIf(sub, TTrue, "nil-func-call", x.Pos())
			continue
		}
		heaps = append(heaps, &State{pc: sub.pc, env: map[ssa.Value]Value{}, heap: sub.heap})
		if res == nil {
			res = r
		} else if r != nil {
			res = ex.merge(al.C, r, res)
		}
	}
	var m *State
	for _, h := range heaps {
		m = ex.mergeStates(m, h)
	}
	if m == nil {
		st.pc = TFalse
		return ex.zeroOfResult(x.Type())
	}
	st.heap = m.heap
	st.pc = m.pc
	return res
}

func (ex *Exec) zeroOfResult(t types.Type) Value {
	if tup, ok := t.(*types.Tuple); ok {
		if tup.Len() == 0 {
			return nil
		}
		if tup.Len() == 1 {
			return ex.zeroValue(tup.At(0).Type())
		}
		tv := &TupleVal{}
		for i := 0; i < tup.Len(); i++ {
			tv.V = append(tv.V, ex.zeroValue(tup.At(i).Type()))
		}
		return tv
	}
	return ex.zeroValue(t)
}

var pathRe = regexp.MustCompile(`[A-Za-z0-9_.~-]+/`)

func fnName(fn *ssa.Function) string {
	if fn.Pkg != nil && fn.Pkg.Pkg.Path() == pkgPath {
		return fn.RelString(fn.Pkg.Pkg)
	}
	s := fn.String()
	if strings.Contains(s, pkgPath+".") {
		s = strings.ReplaceAll(s, pkgPath+".", "")
	}
	return pathRe.ReplaceAllString(s, "")
}

func (ex *Exec) callStatic(st *State, fn *ssa.Function, args []Value, bind []Value, x *ssa.Call) Value {
	name := fnName(fn)
	if o := fn.Origin(); o != nil {
		if h, ok := ex.hooks[fnName(o)]; ok {
			if r, done := h(ex, st, fn, args); done {
				return r
			}
		}
	}
	if h, ok := ex.hooks[name]; ok {
		if r, done := h(ex, st, fn, args); done {
			return r
		}
	}
	if ex.abstractFns[name] {
		// byte-level helper outside the verified subset: uninterpreted, assumed pure and panic-free
		ex.note("function outside the subset abstracted as an uninterpreted pure function: " + name)
		return ex.opaqueCall(st, "abs:"+name, nil, args, fn.Signature.Results())
	}
	local := fn.Pkg != nil && fn.Pkg.Pkg.Path() == pkgPath
	if !local && fn.Name() == "init" {
		return nil // other packages' initialisers
	}
	if !local && fn.Pkg == nil {
		// synthetic wrappers / instantiations of local generics
		if o := fn.Origin(); o != nil && o.Pkg != nil && o.Pkg.Pkg.Path() == pkgPath {
			local = true
		}
		if fn.Synthetic != "" && fn.Object() != nil && fn.Object().Pkg() != nil && fn.Object().Pkg().Path() == pkgPath {
			local = true
		}
	}
	if local && len(fn.Blocks) > 0 {
		return ex.Call(st, fn, args, bind)
	}
	if m, ok := externals[name]; ok {
		return m(ex, st, args, x)
	}
	// bound-method / wrapper thunks of external types, or unknown externals: uninterpreted, assumed pure
	ex.note("external call treated as pure uninterpreted function: " + name)
	var rt types.Type = fn.Signature.Results()
	if x != nil {
		rt = x.Type()
	}
	return ex.opaqueCall(st, "ext:"+name, nil, args, rt)
}

// opaqueCall models a call as an uninterpreted function of the scalar abstraction of its arguments.
func (ex *Exec) opaqueCall(st *State, name string, pre []*Term, args []Value, rt types.Type) Value {
	ts := append([]*Term(nil), pre...)
	for _, a := range args {
		ts = append(ts, ex.abstractArgs(st, a)...)
	}
	mkRes := func(t types.Type, suffix string) Value {
		return ex.symValue(t, func(l string, s Sort) *Term { return App(name+suffix+l, s, ts...) }, false)
	}
	if tup, ok := rt.(*types.Tuple); ok {
		if tup.Len() == 0 {
			return nil
		}
		if tup.Len() == 1 {
			return mkRes(tup.At(0).Type(), "")
		}
		tv := &TupleVal{}
		for i := 0; i < tup.Len(); i++ {
			tv.V = append(tv.V, mkRes(tup.At(i).Type(), fmt.Sprintf("#%d", i)))
		}
		return tv
	}
	return mkRes(rt, "")
}

// abstractArgs flattens a value into terms usable as UF arguments.
func (ex *Exec) abstractArgs(st *State, v Value) []*Term {
	switch x := v.(type) {
	case nil:
		return nil
	case *Term:
		return []*Term{x}
	case *IfaceVal:
		return []*Term{ex.abstractItem(x)}
	case *StructVal:
		var r []*Term
		for _, f := range x.F {
			r = append(r, ex.abstractArgs(st, f)...)
		}
		return r
	case *PtrVal:
		// identity of the pointer target: encode as an opaque token per alternative
		var r *Term
		for _, al := range x.Alts {
			var t *Term
			if al.O == nil {
				t = Lit(Sort("Ref"), "nil")
			} else {
				t = Lit(Sort("Ref"), fmt.Sprintf("%s%v", al.O, al.Path))
			}
			if r == nil {
				r = t
			} else {
				r = Ite(al.C, t, r)
			}
		}
		return []*Term{r}
	case *SliceVal:
		var r []*Term
		// length and (for symbolic arrays) the content array
		var ln *Term
		for _, al := range x.Alts {
			if ln == nil {
				ln = al.Len
			} else {
				ln = Ite(al.C, al.Len, ln)
			}
		}
		r = append(r, ln)
		return r
	case *FuncVal, *MapVal:
		return nil
	case *ReflVal:
		return []*Term{ex.abstractItem(x.IV)}
	case *HostVal:
		return ex.abstractArgs(st, x.V)
	case *TupleVal:
		var r []*Term
		for _, f := range x.V {
			r = append(r, ex.abstractArgs(st, f)...)
		}
		return r
	}
	panic(fmt.Sprintf("abstractArgs %T", v))
}

// invoke: interface method call.
func (ex *Exec) invoke(st *State, recv Value, m *types.Func, args []Value, x *ssa.Call) Value {
	if t, ok := recv.(*Term); ok {
		// method on error / opaque external interface
		name := "ext:" + string(t.S) + "." + m.Name()
		if mm, ok := externals[name]; ok {
			return mm(ex, st, append([]Value{t}, args...), x)
		}
		ex.note("interface method on opaque value treated as pure uninterpreted function: " + name)
		return ex.opaqueCall(st, name, []*Term{t}, args, x.Type())
	}
	if _, oob := recv.(*oobVal); oob {
		// element read beyond every alternative's length: the bounds check before it makes this path dead; any item will do
		ex.objSeq++
		recv = opaqueItem(Fresh("oob", SItem))
	}
	iv := ex.normIface(recv.(*IfaceVal))
	var res Value
	var heaps []*State
	basePC := st.pc
	for _, al := range iv.Alts {
		g := And(basePC, al.C)
		if g == TFalse {
			continue
		}
		sub := &State{pc: g, env: st.env, heap: st.heap}
		var r Value
		switch {
		case al.Opaque != nil:
			r = ex.invokeOpaque(sub, al.Opaque, m, args, x)
		case al.T == nil:
			ex.panicIf(sub, TTrue, "nil-interface-call", x.Pos())
			continue
		default:
			sel := ex.prog.MethodSets.MethodSet(al.T).Lookup(m.Pkg(), m.Name())
			if sel == nil {
				panic(unsupported("method " + m.Name() + " not found on " + al.T.String()))
			}
			fn := ex.prog.MethodValue(sel)
			r = ex.callStatic(sub, fn, append([]Value{al.V}, args...), nil, x)
		}
		heaps = append(heaps, &State{pc: sub.pc, env: map[ssa.Value]Value{}, heap: sub.heap})
		if res == nil {
			res = r
		} else if r != nil {
			res = ex.merge(al.C, r, res)
		}
	}
	var ms *State
	for _, h := range heaps {
		ms = ex.mergeStates(ms, h)
	}
	if ms == nil {
		st.pc = TFalse
		return ex.zeroOfResult(x.Type())
	}
	st.heap = ms.heap
	st.pc = ms.pc
	return res
}

// invokeOpaque: method call on an item whose dynamic type is unknown. The method is modelled as an
// uninterpreted pure function m.<Name>(x, args) — unless a hook named "invoke:<Name>" overrides it.
func (ex *Exec) invokeOpaque(st *State, x *Term, m *types.Func, args []Value, call *ssa.Call) Value {
	if h, ok := ex.hooks["invoke:"+m.Name()]; ok {
		iv := &IfaceVal{Alts: []IfaceAlt{{C: TTrue, Opaque: x}}}
		if r, done := h(ex, st, nil, append([]Value{iv}, args...)); done {
			return r
		}
	}
	// calling a method on the nil interface panics
	ex.panicIf(st, Eq(tagOfItem(x), TagNil), "nil-interface-call", call.Pos())
	r := ex.opaqueCall(st, "m."+m.Name(), []*Term{x}, args, call.Type())
	if t, ok := r.(*Term); ok {
		return ex.known(t)
	}
	return r
}

func (ex *Exec) builtin(st *State, b *ssa.Builtin, args []Value, x *ssa.Call) Value {
	switch b.Name() {
	case "len":
		switch a := args[0].(type) {
		case *Term:
			switch a.S {
			case SStr:
				return SLen(a)
			case SBytes:
				return BLen(a)
			}
			return App("len."+string(a.S), SInt, a)
		case *SliceVal:
			var r *Term
			for _, al := range a.Alts {
				if r == nil {
					r = al.Len
				} else {
					r = Ite(al.C, al.Len, r)
				}
			}
			return r
		case *MapVal:
			// engine-level map with pairwise distinct keys (driver invariant) and no deletions
			if len(a.Alts) == 1 && a.Alts[0].O != nil {
				return IntLit(int64(len(ex.mapContent(st, a.Alts[0].O).Ents)))
			}
			panic(unsupported("len of map"))
		}
	case "cap":
		// capacity is not modelled: an unknown value that is at least the length
		var ln *Term
		switch a := args[0].(type) {
		case *SliceVal:
			ln = sliceLen(a)
		case *Term:
			if a.S == SBytes {
				ln = BLen(a)
			}
		}
		if ln != nil {
			ex.objSeq++
			c := Var(fmt.Sprintf("cap!%d", ex.objSeq), SInt)
			ex.assume(Ge(c, ln))
			return c
		}
	case "append":
		return ex.appendBuiltin(st, args, x)
	case "copy":
		panic(unsupported("copy builtin at " + ex.pos(x.Pos())))
	case "delete":
		m := args[0].(*MapVal)
		k := args[1].(*Term)
		for _, al := range m.Alts {
			if al.O == nil || And(st.pc, al.C) == TFalse {
				continue
			}
			mc := ex.mapContent(st, al.O)
			st.heap[al.O] = &MapContent{Base: mc.Base, Ents: append(append([]MapEnt(nil), mc.Ents...), MapEnt{C: al.C, K: k, Del: true})}
		}
		return nil
	case "print", "println":
		return nil
	case "ssa:wrapnilchk":
		// value-receiver method invoked through a nil pointer panics
		if p, ok := args[0].(*PtrVal); ok {
			for _, al := range p.Alts {
				if al.O == nil {
					ex.panicIf(st, al.C, "value-method-on-nil-pointer", x.Pos())
				}
			}
		}
		return args[0]
	case "min", "max":
		a, b2 := args[0].(*Term), args[1].(*Term)
		if b.Name() == "min" {
			return Ite(Lt(a, b2), a, b2)
		}
		return Ite(Lt(a, b2), b2, a)
	}
	panic(unsupported("builtin " + b.Name() + " at " + ex.pos(x.Pos())))
}

// sliceLenTerm merges the length over the alternatives.
func sliceLen(s *SliceVal) *Term {
	var r *Term
	for _, al := range s.Alts {
		if r == nil {
			r = al.Len
		} else {
			r = Ite(al.C, al.Len, r)
		}
	}
	return r
}

// readElem reads element i (relative to the slice start) of a slice value.
func (ex *Exec) readElem(st *State, s *SliceVal, i *Term) Value {
	var r Value
	for _, al := range s.Alts {
		if al.O == nil {
			continue
		}
		v := ex.navigate(st, ex.heapGet(st, al.O), []PathElem{{Index: Add(al.Off, i)}}, al.O)
		if r == nil {
			r = v
		} else {
			r = ex.merge(al.C, v, r)
		}
	}
	if r == nil {
		return ex.zeroValue(s.Elem)
	}
	if _, oob := r.(*oobVal); oob && classify(s.Elem) == KIface {
		// beyond every alternative's length: the bounds check makes the path dead; any item will do
		return opaqueItem(Fresh("oob", SItem))
	}
	return r
}

// appendInPlace models the case in which Go's append is CERTAIN to write into the backing array of its first
// argument: a slice of a concrete array whose end plus the number of appended elements stays within the
// array's extent (cap >= extent - offset, so no reallocation can happen). The appended elements are read first
// (memmove semantics), then stored behind the slice's end; every other holder of the array sees the change.
// Returns nil when reallocation cannot be excluded for some feasible alternative (then the fresh-array model
// below is used, which under-approximates aliasing).
func (ex *Exec) appendInPlace(st *State, s, t *SliceVal) *SliceVal {
	if !ex.inPlaceAppend || os.Getenv("GOVC_NO_INPLACE_APPEND") != "" {
		appendWhy(1)
		return nil
	}
	type pair struct {
		c           *Term
		o           *Obj
		off, n1, n2 int64
		elems       []Value
	}
	var pairs []pair
	for _, as := range s.Alts {
		if And(st.pc, as.C) == TFalse {
			continue
		}
		if as.O == nil || as.O.kind != OConcArr {
			appendWhy(2)
			return nil
		}
		offs, lens := intCases(as.Off), intCases(as.Len)
		if offs == nil || lens == nil {
			if os.Getenv("GOVC_DEBUG_APPEND") != "" && appendWhyCount[3] < 3 {
				fmt.Fprintln(os.Stderr, "appendInPlace kind 3: off=", truncate(as.Off.String(), 300), " len=", truncate(as.Len.String(), 600))
			}
			appendWhy(3)
			return nil
		}
		av, ok := ex.heapGet(st, as.O).(*ArrVal)
		if !ok {
			appendWhy(4)
			return nil
		}
		for _, at := range t.Alts {
			tl := []intCase{{TTrue, 0}}
			if at.O != nil {
				if tl = intCases(at.Len); tl == nil {
					appendWhy(5)
					return nil
				}
			}
			for _, oc := range offs {
				for _, lc := range lens {
					for _, tc := range tl {
						c := And(as.C, at.C, oc.c, lc.c, tc.c)
						if And(st.pc, c) == TFalse {
							continue
						}
						off, n1, n2 := oc.v, lc.v, tc.v
						if off < 0 || n1 < 0 || n2 < 0 {
							continue // excluded by the bounds checks of the slice expressions
						}
						if off+n1+n2 > int64(len(av.E)) {
							if !ex.feasible(And(st.pc, c)) {
								continue // a combination of cases that cannot occur together
							}
							appendWhy(6)
							return nil
						}
						p := pair{c: c, o: as.O, off: off, n1: n1, n2: n2}
						one := &SliceVal{Elem: t.Elem, Alts: []SliceAlt{{C: TTrue, O: at.O, Off: at.Off, Len: IntLit(n2)}}}
						for j := int64(0); j < n2; j++ {
							p.elems = append(p.elems, ex.readElem(st, one, IntLit(j)))
						}
						pairs = append(pairs, p)
					}
				}
			}
		}
	}
	if len(pairs) == 0 {
		appendWhy(7)
		return nil
	}
	res := &SliceVal{Elem: s.Elem}
	for _, p := range pairs {
		if p.n2 > 0 {
			old := ex.heapGet(st, p.o).(*ArrVal)
			nv := &ArrVal{E: append([]Value(nil), old.E...)}
			for j := range p.elems {
				k := p.off + p.n1 + int64(j)
				nv.E[k] = ex.merge(p.c, p.elems[j], old.E[k])
			}
			st.heap[p.o] = nv
		}
		merged := false
		for i := range res.Alts {
			a := &res.Alts[i]
			if a.O == p.o && a.Off == IntLit(p.off) && a.Len == IntLit(p.n1+p.n2) {
				a.C = Or(a.C, p.c)
				merged = true
				break
			}
		}
		if !merged {
			res.Alts = append(res.Alts, SliceAlt{C: p.c, O: p.o, Off: IntLit(p.off), Len: IntLit(p.n1 + p.n2)})
		}
	}
	return res
}

type intCase struct {
	c *Term
	v int64
}

// intCases enumerates the values of a term that is a tree of ite nodes over integer literals (nil otherwise),
// one case per distinct value.
func intCases(t *Term) []intCase {
	memo := map[*Term][]intCase{}
	bad := false
	var walk func(t *Term) []intCase
	walk = func(t *Term) []intCase {
		if r, ok := memo[t]; ok {
			return r
		}
		var r []intCase
		if v, ok := t.IntVal(); ok {
			r = []intCase{{TTrue, v}}
		} else if t.Op == "ite" {
			a, b := walk(t.Args[1]), walk(t.Args[2])
			if bad {
				return nil
			}
			idx := map[int64]int{}
			add := func(c *Term, v int64) {
				if k, ok := idx[v]; ok {
					r[k].c = Or(r[k].c, c)
				} else {
					idx[v] = len(r)
					r = append(r, intCase{c, v})
				}
			}
			for _, x := range a {
				add(And(t.Args[0], x.c), x.v)
			}
			for _, x := range b {
				add(And(Not(t.Args[0]), x.c), x.v)
			}
			if len(r) > 32 {
				bad = true
			}
		} else if (t.Op == "+" || t.Op == "-") && len(t.Args) >= 1 {
			r = walk(t.Args[0])
			if t.Op == "-" && len(t.Args) == 1 {
				for i := range r {
					r[i].v = -r[i].v
				}
			}
			for _, arg := range t.Args[1:] {
				b := walk(arg)
				if bad {
					return nil
				}
				var nr []intCase
				idx := map[int64]int{}
				for _, x := range r {
					for _, y := range b {
						v := x.v + y.v
						if t.Op == "-" {
							v = x.v - y.v
						}
						c := And(x.c, y.c)
						if c == TFalse {
							continue
						}
						if k, ok := idx[v]; ok {
							nr[k].c = Or(nr[k].c, c)
						} else {
							idx[v] = len(nr)
							nr = append(nr, intCase{c, v})
						}
					}
				}
				r = nr
				if len(r) > 32 {
					bad = true
				}
			}
		} else {
			bad = true
		}
		memo[t] = r
		return r
	}
	r := walk(t)
	if bad {
		return nil
	}
	return r
}

var appendWhyCount = map[int]int{}

func appendWhy(k int) {
	if os.Getenv("GOVC_DEBUG_APPEND") != "" {
		appendWhyCount[k]++
		if appendWhyCount[k] == 1 {
			fmt.Fprintln(os.Stderr, "appendInPlace: first fallback of kind", k)
		}
	}
}

// appendBuiltin: append(s, t...) produces a fresh backing array unless appendInPlace applies.
func (ex *Exec) appendBuiltin(st *State, args []Value, x *ssa.Call) Value {
	if a, ok := args[0].(*Term); ok && a.S == SBytes {
		switch b := args[1].(type) {
		case *Term:
			if b.S == SStr {
				return BCat(a, S2B(b))
			}
			// appending nothing to nil keeps nil
			if BLen(b) == IntLit(0) {
				return a
			}
			return BCat(a, b)
		case *SliceVal:
			// append(bytes, c1, c2...) with a concrete variadic array of byte values
			r := a
			n, ok := sliceLen(b).IntVal()
			if !ok {
				panic(unsupported("append of symbolic number of bytes"))
			}
			for i := int64(0); i < n; i++ {
				c := ex.readElem(st, b, IntLit(i)).(*Term)
				if cv, ok := c.IntVal(); ok && cv < 128 {
					r = BCat(r, BytesLit(string(rune(cv))))
				} else {
					r = BCat(r, App("byte1", SBytes, c))
				}
			}
			return r
		}
	}
	s, ok0 := args[0].(*SliceVal)
	if !ok0 {
		panic(unsupported(fmt.Sprintf("append to %T (%v) of %T at %s", args[0], args[0], args[1], ex.pos(x.Pos()))))
	}
	t, ok := args[1].(*SliceVal)
	if !ok {
		panic(unsupported(fmt.Sprintf("append with %T", args[1])))
	}
	l1, l2 := sliceLen(s), sliceLen(t)
	if l2 == IntLit(0) {
		return s
	}
	// with spare capacity append writes into the backing array of its first argument: a write to
	// memory the function did not allocate itself is recorded (frame obligations)
	for _, al := range s.Alts {
		if al.O != nil && !al.O.fresh && And(st.pc, al.C) != TFalse {
			fn := ""
			if len(ex.stack) > 0 {
				fn = fnName(ex.stack[len(ex.stack)-1])
			}
			ex.writes = append(ex.writes, WriteRec{C: And(st.pc, al.C), O: al.O, Pos: ex.pos(x.Pos()) + " (append into a backing array it does not own)", Fn: fn})
		}
	}
	if r := ex.appendInPlace(st, s, t); r != nil {
		return r
	}
	total := Add(l1, l2)
	n1, c1 := l1.IntVal()
	n2, c2 := l2.IntVal()
	if c1 && c2 {
		o := ex.freshArr(st, s.Elem, total, "append@"+ex.pos(x.Pos()))
		av := &ArrVal{E: make([]Value, n1+n2)}
		for i := int64(0); i < n1; i++ {
			av.E[i] = ex.readElem(st, s, IntLit(i))
		}
		for i := int64(0); i < n2; i++ {
			av.E[n1+i] = ex.readElem(st, t, IntLit(i))
		}
		st.heap[o] = av
		return &SliceVal{Elem: s.Elem, Alts: []SliceAlt{{C: TTrue, O: o, Off: IntLit(0), Len: total}}}
	}
	// several alternatives, each of concrete length: one fresh concrete array per distinct length
	if c2 {
		allConc := true
		for _, al := range s.Alts {
			if _, ok := al.Len.IntVal(); !ok && al.O != nil {
				allConc = false
			}
		}
		if allConc {
			byLen := map[int64][]SliceAlt{}
			var lens []int64
			for _, al := range s.Alts {
				if And(st.pc, al.C) == TFalse {
					continue
				}
				var na int64
				if al.O != nil {
					na, _ = al.Len.IntVal()
				}
				if _, ok := byLen[na]; !ok {
					lens = append(lens, na)
				}
				byLen[na] = append(byLen[na], al)
			}
			res := &SliceVal{Elem: s.Elem}
			for _, na := range lens {
				grp := byLen[na]
				var gc *Term = TFalse
				sub := &SliceVal{Elem: s.Elem}
				for _, al := range grp {
					gc = Or(gc, al.C)
					sub.Alts = append(sub.Alts, al)
				}
				o := ex.freshArr(st, s.Elem, IntLit(na+n2), fmt.Sprintf("append@%s/len%d", ex.pos(x.Pos()), na))
				av := &ArrVal{E: make([]Value, na+n2)}
				for i := int64(0); i < na; i++ {
					av.E[i] = ex.readElem(st, sub, IntLit(i))
				}
				for i := int64(0); i < n2; i++ {
					av.E[na+i] = ex.readElem(st, t, IntLit(i))
				}
				st.heap[o] = av
				res.Alts = append(res.Alts, SliceAlt{C: gc, O: o, Off: IntLit(0), Len: IntLit(na + n2)})
			}
			if len(res.Alts) > 0 {
				return res
			}
		}
	}
	// symbolic length: new symbolic array; content described pointwise
	o := ex.newObj("append@"+ex.pos(x.Pos()), OSymArr, s.Elem)
	o.fresh = true
	if c2 && n2 <= 8 && ex.canLift(s.Elem) {
		// a' = store(...store(a_shifted, l1, t0)..., l1+k, tk): copy s then store the appended elements
		base := ex.liftedCopy(st, s, o)
		for i := int64(0); i < n2; i++ {
			base = ex.liftedStore(base, Add(l1, IntLit(i)), ex.readElem(st, t, IntLit(i)))
		}
		st.heap[o] = base
		return &SliceVal{Elem: s.Elem, Alts: []SliceAlt{{C: TTrue, O: o, Off: IntLit(0), Len: total}}}
	}
	if !ex.canLift(s.Elem) {
		panic(unsupported("append of symbolic length on non-scalar elements"))
	}
	nm := varNamer(fmt.Sprintf("arr!%d", o.id))
	content := ex.symValue(s.Elem, nm, true)
	st.heap[o] = content
	k := FreshBound("k", SInt)
	ex.assume(Forall([]*Term{k}, Implies(And(Le(IntLit(0), k), Lt(k, l1)),
		ex.valueEqLifted(ex.liftedSelect(content, k), ex.readElem(st, s, k)))))
	ex.assume(Forall([]*Term{k}, Implies(And(Le(IntLit(0), k), Lt(k, l2)),
		ex.valueEqLifted(ex.liftedSelect(content, Add(l1, k)), ex.readElem(st, t, k)))))
	return &SliceVal{Elem: s.Elem, Alts: []SliceAlt{{C: TTrue, O: o, Off: IntLit(0), Len: total}}}
}

func (ex *Exec) canLift(t types.Type) bool {
	k := classify(t)
	if isScalarKind(k) || k == KFloat || k == KIface {
		return true
	}
	if k == KStruct {
		st := t.Underlying().(*types.Struct)
		for i := 0; i < st.NumFields(); i++ {
			if !ex.canLift(st.Field(i).Type()) {
				return false
			}
		}
		return true
	}
	return false
}

// liftedCopy returns lifted content equal to slice s re-based at offset 0.
func (ex *Exec) liftedCopy(st *State, s *SliceVal, into *Obj) Value {
	// single symbolic alternative at offset 0: reuse its arrays
	var live []SliceAlt
	for _, al := range s.Alts {
		if al.O != nil {
			live = append(live, al)
		}
	}
	if len(live) == 1 && live[0].Off == IntLit(0) && live[0].O.kind == OSymArr {
		return ex.heapGet(st, live[0].O)
	}
	if len(live) == 0 {
		return ex.symValue(s.Elem, varNamer(fmt.Sprintf("arr!%d", into.id)), true)
	}
	// general case: fresh arrays constrained pointwise
	content := ex.symValue(s.Elem, varNamer(fmt.Sprintf("arr!%d", into.id)), true)
	k := FreshBound("k", SInt)
	ex.assume(Forall([]*Term{k}, Implies(And(Le(IntLit(0), k), Lt(k, sliceLen(s))),
		ex.valueEqLifted(ex.liftedSelect(content, k), ex.readElem(st, s, k)))))
	return content
}

// valueEqLifted: equality of two element values (items compared as Item terms).
func (ex *Exec) valueEqLifted(a, b Value) *Term {
	switch x := a.(type) {
	case *Term:
		return Eq(x, b.(*Term))
	case *IfaceVal:
		return Eq(ex.abstractItem(x), ex.abstractItem(b.(*IfaceVal)))
	case *StructVal:
		y := b.(*StructVal)
		var cs []*Term
		for i := range x.F {
			cs = append(cs, ex.valueEqLifted(x.F[i], y.F[i]))
		}
		return And(cs...)
	}
	panic(fmt.Sprintf("valueEqLifted %T", a))
}

// ---------- external models ----------

type ExtModel func(ex *Exec, st *State, args []Value, x *ssa.Call) Value

var externals = map[string]ExtModel{}

func freshErr(ex *Exec, tag string) *Term {
	e := Fresh("err."+tag, SErr)
	ex.assume(Neq(e, ErrNil))
	return e
}

func init() {
	externals["strings.EqualFold"] = func(ex *Exec, st *State, a []Value, x *ssa.Call) Value {
		return EqFold(a[0].(*Term), a[1].(*Term))
	}
	externals["bytes.EqualFold"] = func(ex *Exec, st *State, a []Value, x *ssa.Call) Value {
		return EqFold(B2S(a[0].(*Term)), B2S(a[1].(*Term)))
	}
	externals["bytes.Equal"] = func(ex *Exec, st *State, a []Value, x *ssa.Call) Value {
		p, q := a[0].(*Term), a[1].(*Term)
		return Or(Eq(p, q), And(Eq(BLen(p), IntLit(0)), Eq(BLen(q), IntLit(0))), Eq(B2S(p), B2S(q)))
	}
	externals["fmt.Errorf"] = func(ex *Exec, st *State, a []Value, x *ssa.Call) Value {
		return freshErr(ex, "fmt")
	}
	externals["errors.New"] = func(ex *Exec, st *State, a []Value, x *ssa.Call) Value {
		return freshErr(ex, "new")
	}
	externals["(time.Time).After"] = func(ex *Exec, st *State, a []Value, x *ssa.Call) Value {
		return Gt(Inst(a[0].(*Term)), Inst(a[1].(*Term)))
	}
	externals["(time.Time).Before"] = func(ex *Exec, st *State, a []Value, x *ssa.Call) Value {
		return Lt(Inst(a[0].(*Term)), Inst(a[1].(*Term)))
	}
	externals["(time.Time).Equal"] = func(ex *Exec, st *State, a []Value, x *ssa.Call) Value {
		return Eq(Inst(a[0].(*Term)), Inst(a[1].(*Term)))
	}
	externals["(time.Time).IsZero"] = func(ex *Exec, st *State, a []Value, x *ssa.Call) Value {
		return Eq(Inst(a[0].(*Term)), IntLit(0))
	}
	// Unix-style accessors: integer division of the instant (the epoch shift is a multiple of the
	// unit and does not affect comparisons between two such values)
	for name, unit := range map[string]int64{"Unix": 1000000000, "UnixMilli": 1000000, "UnixMicro": 1000, "UnixNano": 1} {
		unit := unit
		externals["(time.Time)."+name] = func(ex *Exec, st *State, a []Value, x *ssa.Call) Value {
			if unit == 1 {
				return Inst(a[0].(*Term))
			}
			return mk("div", "", SInt, Inst(a[0].(*Term)), IntLit(unit))
		}
	}
	externals["(time.Time).Sub"] = func(ex *Exec, st *State, a []Value, x *ssa.Call) Value {
		return Sub(Inst(a[0].(*Term)), Inst(a[1].(*Term)))
	}
	externals["(time.Time).Compare"] = func(ex *Exec, st *State, a []Value, x *ssa.Call) Value {
		p, q := Inst(a[0].(*Term)), Inst(a[1].(*Term))
		return Ite(Lt(p, q), IntLit(-1), Ite(Gt(p, q), IntLit(1), IntLit(0)))
	}
	externals["(time.Time).UTC"] = func(ex *Exec, st *State, a []Value, x *ssa.Call) Value {
		t := a[0].(*Term)
		r := App("time.utc", STime, t)
		ex.assume(Eq(Inst(r), Inst(t)))
		return r
	}
	externals["(time.Time).Truncate"] = func(ex *Exec, st *State, a []Value, x *ssa.Call) Value {
		return App("time.trunc", STime, a[0].(*Term), a[1].(*Term))
	}
	externals["strings.ToLower"] = func(ex *Exec, st *State, a []Value, x *ssa.Call) Value {
		return App("strings.ToLower", SStr, a[0].(*Term))
	}
	// strings.Builder / bytes.Buffer as append-only byte strings
	wr := func(conv func(*Term) *Term, results int) ExtModel {
		return func(ex *Exec, st *State, a []Value, x *ssa.Call) Value {
			p := a[0].(*PtrVal)
			cur := ex.load(st, p, nil, x.Pos()).(*Term)
			add := conv(a[1].(*Term))
			ex.store(st, p, BCat(cur, add), x.Pos())
			if results == 2 {
				return &TupleVal{V: []Value{BLen(add), ErrNil}}
			}
			return ErrNil
		}
	}
	externals["(*strings.Builder).WriteString"] = wr(S2B, 2)
	externals["(*bytes.Buffer).WriteString"] = wr(S2B, 2)
	externals["(*strings.Builder).Write"] = wr(func(t *Term) *Term { return t }, 2)
	externals["(*bytes.Buffer).Write"] = wr(func(t *Term) *Term { return t }, 2)
	byteConv := func(t *Term) *Term {
		if cv, ok := t.IntVal(); ok && cv < 128 {
			return BytesLit(string(rune(cv)))
		}
		return App("byte1", SBytes, t)
	}
	externals["(*strings.Builder).WriteByte"] = wr(byteConv, 1)
	externals["(*bytes.Buffer).WriteByte"] = wr(byteConv, 1)
	externals["(*strings.Builder).WriteRune"] = wr(func(t *Term) *Term { return App("rune2bytes", SBytes, t) }, 2)
	externals["(*bytes.Buffer).WriteRune"] = wr(func(t *Term) *Term { return App("rune2bytes", SBytes, t) }, 2)
	externals["(*strings.Builder).String"] = func(ex *Exec, st *State, a []Value, x *ssa.Call) Value {
		return B2S(ex.load(st, a[0].(*PtrVal), nil, x.Pos()).(*Term))
	}
	externals["(*bytes.Buffer).String"] = externals["(*strings.Builder).String"]
	externals["(*bytes.Buffer).Bytes"] = func(ex *Exec, st *State, a []Value, x *ssa.Call) Value {
		return ex.load(st, a[0].(*PtrVal), nil, x.Pos())
	}
	externals["(*bytes.Buffer).Len"] = func(ex *Exec, st *State, a []Value, x *ssa.Call) Value {
		return BLen(ex.load(st, a[0].(*PtrVal), nil, x.Pos()).(*Term))
	}
	externals["(*strings.Builder).Len"] = externals["(*bytes.Buffer).Len"]
	externals["(*strings.Builder).Grow"] = func(ex *Exec, st *State, a []Value, x *ssa.Call) Value { return nil }
	externals["(*bytes.Buffer).Grow"] = externals["(*strings.Builder).Grow"]
}
