package main

// bytevc: verification conditions for the byte-level JSON string escaper (stringBytes).
//
// The main executor models []byte as an uninterpreted sort, which cannot see inside a loop over bytes. This
// file is a second, small VC generator over the same go/ssa for functions of this shape:
//
//	func f(e *bytes.Buffer, s []byte, flags ...bool)
//
// whose body reads s, consults constant tables and writes to e. The input is an SMT array of integers
// (bytes 0..255) with a symbolic length; the output buffer is ghost state: a phase (before the opening quote /
// inside / closed), a position `consumed` (how much of s the bytes written so far decode to) and the bytes of
// an escape sequence that is not complete yet. Every write to the buffer is checked against the grammar of a
// JSON string (RFC 8259 §7) *as a decoder reads it*:
//
//	e.Write(s[a:b])          raw run: a == consumed, every byte of it is raw-safe; consumed := b
//	a single byte x          opening quote / closing quote (only when consumed == len(s)) / backslash starting
//	                         an escape / a raw-safe byte equal to s[consumed]
//	\" \\ \/ \b \f \n \r \t  decodes to one byte, which must be s[consumed]; consumed += 1
//	\uXXXX                   four hex digits; the UTF-8 encoding of the code point must be s[consumed:consumed+k]
//	                         (k = 1, 2, 3), no surrogates; consumed += k. The one exception is the replacement
//	                         character: \\ufffd may stand for ONE input byte at which utf8.DecodeRune reported
//	                         an invalid encoding and which is a rune boundary of the sequential decoding of s
//	                         (ghost predicate bv.boundary) — the documented lossy case
//
// so that "the bytes written are one JSON string which decodes to s (invalid bytes replaced by U+FFFD)" is the
// conjunction of the per-write obligations, the loop invariant (written in /repo/contracts_verif.go; it must
// contain consumed == start) and the exit obligation. The loop is cut at its header by the invariant: the
// proof is for inputs of every length. Paths through the body are enumerated (no merging; the body is small).
//
// Raw-safe at position k: 0x20 <= s[k] < 0x80, not '"', not '\\' — or s[k] >= 0x80 and k lies inside a valid
// UTF-8 sequence (ghost predicate bv.vrb, which the contract of utf8.DecodeRune establishes), so the output is
// valid UTF-8 as well.
//
// Assumed: the contract of unicode/utf8.DecodeRune (below, decodeRuneContract), (*bytes.Buffer).Write* append
// their argument and never fail, machine integers are mathematical. The constant tables (hex, safeSet,
// htmlSafeSet) are read from the package's syntax; a scan over the SSA of the whole package shows that
// nothing but the initialiser stores to them.

import (
	"fmt"
	"go/ast"
	"go/constant"
	"go/token"
	"go/types"
	"sort"
	"strings"

	"golang.org/x/tools/go/ssa"
)

type bvSlice struct {
	arr     *Term
	off, ln *Term
}
type bvStr struct{ s string }
type bvBuf struct{}
type bvTuple []interface{}
type bvElemPtr struct {
	tbl *bvTable
	sl  *bvSlice
	idx *Term
}
type bvTable struct {
	name string
	vals []bool
}
type bvGlobal struct{ g *ssa.Global }

type bvUnsupported struct{ msg string }

type bvPath struct {
	env      map[ssa.Value]interface{}
	pc       []*Term
	phase    int
	consumed *Term
	esc      []*Term
	trace    []string
	mode     string // "entry" or "body"
}

func (p *bvPath) clone() *bvPath {
	q := &bvPath{env: map[ssa.Value]interface{}{}, phase: p.phase, consumed: p.consumed, mode: p.mode}
	for k, v := range p.env {
		q.env[k] = v
	}
	q.pc = append([]*Term(nil), p.pc...)
	q.esc = append([]*Term(nil), p.esc...)
	q.trace = append([]string(nil), p.trace...)
	return q
}

type bvEngine struct {
	w         *World
	c         *Check
	prefix    string
	fn        *ssa.Function
	spec      *FuncSpec
	arr       *Term
	n         *Term
	inName    string
	header    *ssa.BasicBlock
	inv       []*SExpr
	tables    map[string]*bvTable
	strs      map[string]string
	nOb       int
	paths     int
	wit       []Witness
	seq       int
	names     map[string]int
	untouched map[*ssa.Global]bool
}

func bvFail(format string, a ...interface{}) { panic(&bvUnsupported{fmt.Sprintf(format, a...)}) }

func divT(a *Term, k int64) *Term { return mk("div", "", SInt, a, IntLit(k)) }
func modT(a *Term, k int64) *Term { return mk("mod", "", SInt, a, IntLit(k)) }

// addByteLevel adds the obligations of the byte-level escaper to a check.
func addByteLevel(w *World, c *Check, prefix string) {
	cs, err := LoadContracts()
	name := "stringBytes"
	fail := func(msg string) {
		c.Add(&Obligation{Name: prefix + "/bytes/" + name + "/subset", EngineErr: msg, Funcs: []string{name}})
	}
	if err != nil {
		fail("contracts: " + err.Error())
		return
	}
	spec := cs.Funcs[name]
	fn := w.Pkg.Func(name)
	if spec == nil || fn == nil {
		fail("no contract or no function " + name)
		return
	}
	c.FUC[name] = true
	c.Trusted = append(c.Trusted,
		"contract of unicode/utf8.DecodeRune: on an empty slice (RuneError, 0); otherwise 1 <= size <= min(4, len), and either (RuneError, 1) for an invalid encoding, or the first `size` bytes are the UTF-8 encoding of r (1: r < 0x80; 2: < 0x800; 3: < 0x10000; 4: otherwise; no surrogates) — which also makes those positions part of a valid UTF-8 sequence",
		"(*bytes.Buffer).WriteRune/WriteByte/WriteString/Write append their argument (a rune below 0x80 as one byte) and never fail",
		"the JSON string grammar of RFC 8259 §7 as the decoder's reading of the written bytes (this is the specification stringBytes is checked against; that fastjson/encoding/json implement it is assumed)")
	c.Assume = append(c.Assume,
		"DECIDED (byte level, all input lengths): stringBytes writes exactly one JSON string literal whose decoding is its argument, byte for byte, except that each byte at which utf8.DecodeRune reports an invalid encoding is written as \\ufffd (the documented lossy case); no raw control character, quote, backslash or invalid UTF-8 leaves unescaped; every index, slice and table access is in bounds. Loop cut by the invariant in contracts_verif.go (initiation, preservation along every path of the body, exit)",
		"bytes are integers 0..255 held in an SMT array; machine integers are mathematical; the tables hex/safeSet/htmlSafeSet hold their initial values (no other store to them in the package: scanned)")
	e := &bvEngine{w: w, c: c, prefix: prefix + "/bytes/" + name, fn: fn, spec: spec, tables: map[string]*bvTable{}, strs: map[string]string{}, names: map[string]int{}}
	func() {
		defer func() {
			if r := recover(); r != nil {
				if u, ok := r.(*bvUnsupported); ok {
					fail("outside the byte-level subset: " + u.msg)
					return
				}
				panic(r)
			}
		}()
		e.run()
	}()
	c.Notes = append(c.Notes, fmt.Sprintf("byte level: %s — %d paths, %d obligations", name, e.paths, e.nOb))
}

func (e *bvEngine) run() {
	fn := e.fn
	// contract shape
	okEns := false
	for _, en := range e.spec.Ensures {
		if len(en.List) == 3 && en.List[0].Atom == "jsonString" {
			okEns = true
		}
	}
	if !okEns {
		bvFail("contract of %s must have `ensures (jsonString e s)`", fn.Name())
	}
	ls := e.spec.Loops[0]
	if ls == nil || len(ls.Inv) == 0 {
		bvFail("contract of %s has no invariant for loop 0", fn.Name())
	}
	for _, iv := range ls.Inv {
		// top-level conjunctions are split so that a failure names the conjunct
		if len(iv.List) > 0 && iv.List[0].Atom == "and" {
			e.inv = append(e.inv, iv.List[1:]...)
		} else {
			e.inv = append(e.inv, iv)
		}
	}
	hasConsumed := false
	for _, iv := range e.inv {
		if strings.Contains(iv.String(), "consumed") {
			hasConsumed = true
		}
	}
	if !hasConsumed {
		bvFail("the invariant does not mention the ghost position `consumed`")
	}
	e.loadTables()
	e.arr = Var("bv.s", ArraySort(SInt))
	e.n = Var("bv.len", SInt)
	// parameters
	base := &bvPath{env: map[ssa.Value]interface{}{}, mode: "entry", consumed: IntLit(0)}
	base.pc = append(base.pc, e.baseFacts()...)
	nbuf, nsl := 0, 0
	for _, p := range fn.Params {
		switch t := p.Type().Underlying().(type) {
		case *types.Pointer:
			if t.String() != "*bytes.Buffer" {
				bvFail("parameter %s of type %s", p.Name(), t)
			}
			base.env[p] = &bvBuf{}
			nbuf++
		case *types.Slice:
			if b, ok := t.Elem().Underlying().(*types.Basic); !ok || b.Kind() != types.Uint8 {
				bvFail("parameter %s of type %s", p.Name(), t)
			}
			base.env[p] = &bvSlice{arr: e.arr, off: IntLit(0), ln: e.n}
			e.inName = p.Name()
			nsl++
		case *types.Basic:
			if t.Kind() != types.Bool {
				bvFail("parameter %s of type %s", p.Name(), t)
			}
			base.env[p] = Var("bv.p."+p.Name(), SBool)
		default:
			bvFail("parameter %s of type %s", p.Name(), t)
		}
	}
	if nbuf != 1 || nsl != 1 {
		bvFail("expected one *bytes.Buffer and one []byte parameter")
	}
	// the loop header
	for _, b := range fn.Blocks {
		for _, pr := range b.Preds {
			if b.Dominates(pr) {
				if e.header != nil && e.header != b {
					bvFail("more than one loop")
				}
				e.header = b
			}
		}
	}
	if e.header == nil {
		bvFail("no loop")
	}
	// 1. entry to the loop header: initiation
	e.exec(base, fn.Blocks[0], nil, 0)
	// 2. from the header, any state satisfying the invariant: preservation and exit
	body := &bvPath{env: map[ssa.Value]interface{}{}, mode: "body", phase: 1}
	for k, v := range base.env {
		if _, ok := k.(*ssa.Parameter); ok {
			body.env[k] = v
		}
	}
	body.pc = append(body.pc, e.baseFacts()...)
	body.consumed = Var("bv.consumed0", SInt)
	e.wit = append(e.wit, Witness{"len", e.n})
	for _, in := range e.header.Instrs {
		ph, ok := in.(*ssa.Phi)
		if !ok {
			break
		}
		nm := ph.Comment
		if nm == "" {
			nm = ph.Name()
		}
		switch {
		case isIntType(ph.Type()):
			v := Var("bv.h."+nm, SInt)
			body.env[ph] = v
			e.wit = append(e.wit, Witness{"at_" + nm, v})
			for j := 0; j < 4; j++ {
				sel := Select(e.arr, Add(v, IntLit(int64(j))))
				body.pc = append(body.pc, Ge(sel, IntLit(0)), Le(sel, IntLit(255)))
				e.wit = append(e.wit, Witness{fmt.Sprintf("b_%s_%d", nm, j), sel})
			}
		case isBoolType(ph.Type()):
			body.env[ph] = Var("bv.h."+nm, SBool)
		default:
			bvFail("loop-carried value %s of type %s", nm, ph.Type())
		}
	}
	invEnv := e.nameEnv(body, e.header)
	for _, iv := range e.inv {
		body.pc = append(body.pc, e.eval(iv, invEnv, body.consumed))
	}
	// cover: the invariant is satisfiable together with another iteration, and with the exit
	e.c.Add(&Obligation{Name: e.prefix + "/cover/invariant-admits-a-nonempty-input", Group: e.prefix, ExpectSat: true,
		Hyps: body.pc, Goal: Gt(e.n, IntLit(2)), Funcs: []string{e.fn.Name()}})
	e.execFrom(body, e.header, firstNonPhi(e.header), 0)
	if e.nOb == 0 {
		bvFail("no obligations generated")
	}
}

// baseFacts: the length is not negative; position 0 is a rune boundary of the sequential UTF-8 decoding of the
// input, and so is the position after an ASCII byte at a boundary (the definition of that decoding; the other
// steps come from the contract of utf8.DecodeRune).
func (e *bvEngine) baseFacts() []*Term {
	k := Bound("bv.kb", SInt)
	v := Select(e.arr, k)
	return []*Term{Ge(e.n, IntLit(0)), App("bv.boundary", SBool, IntLit(0)),
		Forall([]*Term{k}, Implies(And(App("bv.boundary", SBool, k), Ge(v, IntLit(0)), Lt(v, IntLit(128))), App("bv.boundary", SBool, Add(k, IntLit(1)))))}
}

func firstNonPhi(b *ssa.BasicBlock) int {
	for i, in := range b.Instrs {
		if _, ok := in.(*ssa.Phi); !ok {
			return i
		}
	}
	return len(b.Instrs)
}

func isIntType(t types.Type) bool {
	b, ok := t.Underlying().(*types.Basic)
	return ok && b.Info()&types.IsInteger != 0
}
func isBoolType(t types.Type) bool {
	b, ok := t.Underlying().(*types.Basic)
	return ok && b.Info()&types.IsBoolean != 0
}

// nameEnv maps source-level names to the values at the loop header (phis by their variable name, parameters).
func (e *bvEngine) nameEnv(p *bvPath, hdr *ssa.BasicBlock) map[string]interface{} {
	m := map[string]interface{}{}
	for _, pa := range e.fn.Params {
		m[pa.Name()] = p.env[pa]
	}
	for _, in := range hdr.Instrs {
		if ph, ok := in.(*ssa.Phi); ok && ph.Comment != "" {
			m[ph.Comment] = p.env[ph]
		}
	}
	return m
}

func (e *bvEngine) rawsafe(k *Term) *Term {
	v := Select(e.arr, k)
	return Or(And(Ge(v, IntLit(32)), Lt(v, IntLit(128)), Neq(v, IntLit(34)), Neq(v, IntLit(92))),
		And(Ge(v, IntLit(128)), Le(v, IntLit(255)), App("bv.vrb", SBool, k)))
}

// eval translates a contract expression.
func (e *bvEngine) eval(x *SExpr, env map[string]interface{}, consumed *Term) *Term {
	var ev func(x *SExpr, bound map[string]*Term) *Term
	ev = func(x *SExpr, bound map[string]*Term) *Term {
		if x.List == nil {
			a := x.Atom
			if t, ok := bound[a]; ok {
				return t
			}
			switch a {
			case "true":
				return TTrue
			case "false":
				return TFalse
			case "consumed":
				return consumed
			}
			var n int64
			if _, err := fmt.Sscanf(a, "%d", &n); err == nil && fmt.Sprint(n) == a {
				return IntLit(n)
			}
			if v, ok := env[a]; ok {
				if t, ok := v.(*Term); ok {
					return t
				}
			}
			bvFail("contract: unknown name %q (loop variables are known by their source names)", a)
		}
		if len(x.List) == 0 {
			bvFail("contract: empty expression")
		}
		op := x.List[0].Atom
		args := x.List[1:]
		sub := func(i int) *Term { return ev(args[i], bound) }
		all := func() []*Term {
			var r []*Term
			for i := range args {
				r = append(r, sub(i))
			}
			return r
		}
		switch op {
		case "true":
			return TTrue
		case "and":
			return And(all()...)
		case "or":
			return Or(all()...)
		case "not":
			return Not(sub(0))
		case "=>":
			return Implies(sub(0), sub(1))
		case "=":
			return Eq(sub(0), sub(1))
		case "<":
			return Lt(sub(0), sub(1))
		case "<=":
			return Le(sub(0), sub(1))
		case ">":
			return Gt(sub(0), sub(1))
		case ">=":
			return Ge(sub(0), sub(1))
		case "+":
			return Add(sub(0), sub(1))
		case "-":
			return Sub(sub(0), sub(1))
		case "len":
			if sl, ok := env[args[0].Atom].(*bvSlice); ok {
				return sl.ln
			}
			bvFail("contract: len of %s", args[0])
		case "at":
			if sl, ok := env[args[0].Atom].(*bvSlice); ok {
				return Select(sl.arr, Add(sl.off, sub(1)))
			}
			bvFail("contract: at of %s", args[0])
		case "rawsafe":
			return e.rawsafe(sub(0))
		case "boundary":
			return App("bv.boundary", SBool, sub(0))
		case "forall":
			nb := map[string]*Term{}
			for k, v := range bound {
				nb[k] = v
			}
			e.seq++
			qn := args[0].Atom
			if args[0].List != nil && len(args[0].List) == 1 {
				qn = args[0].List[0].Atom
			}
			bv := Bound(fmt.Sprintf("bv.q%d.%s", e.seq, qn), SInt)
			nb[qn] = bv
			return Forall([]*Term{bv}, ev(args[1], nb))
		}
		bvFail("contract: unknown operator %q", op)
		return nil
	}
	return ev(x, map[string]*Term{})
}

// ---------- tables ----------

func (e *bvEngine) loadTables() {
	info := e.w.PPkg.TypesInfo
	for _, f := range e.w.PPkg.Syntax {
		for _, d := range f.Decls {
			gd, ok := d.(*ast.GenDecl)
			if !ok || gd.Tok != token.VAR {
				continue
			}
			for _, sp := range gd.Specs {
				vs := sp.(*ast.ValueSpec)
				for i, nm := range vs.Names {
					if i >= len(vs.Values) {
						continue
					}
					switch v := vs.Values[i].(type) {
					case *ast.BasicLit:
						if tv, ok := info.Types[v]; ok && tv.Value != nil && tv.Value.Kind() == constant.String {
							e.strs[nm.Name] = constant.StringVal(tv.Value)
						}
					case *ast.CompositeLit:
						at, ok := info.TypeOf(v).Underlying().(*types.Array)
						if !ok || !isBoolType(at.Elem()) {
							continue
						}
						tb := &bvTable{name: nm.Name, vals: make([]bool, at.Len())}
						good := true
						next := int64(0)
						for _, el := range v.Elts {
							val := el
							if kv, ok := el.(*ast.KeyValueExpr); ok {
								ktv := info.Types[kv.Key]
								if ktv.Value == nil {
									good = false
									break
								}
								next, _ = constant.Int64Val(constant.ToInt(ktv.Value))
								val = kv.Value
							}
							vtv := info.Types[val]
							if vtv.Value == nil || vtv.Value.Kind() != constant.Bool || next < 0 || next >= at.Len() {
								good = false
								break
							}
							tb.vals[next] = constant.BoolVal(vtv.Value)
							next++
						}
						if good {
							e.tables[nm.Name] = tb
						}
					}
				}
			}
		}
	}
}

// tableUntouched: nothing but the package initialiser stores to (or leaks the address of) a table global.
func (e *bvEngine) tableUntouched(g *ssa.Global) {
	if e.untouched == nil {
		e.untouched = map[*ssa.Global]bool{}
	}
	if e.untouched[g] {
		return
	}
	e.untouched[g] = true
	var fns []*ssa.Function
	for _, m := range e.w.Pkg.Members {
		if f, ok := m.(*ssa.Function); ok {
			fns = append(fns, f)
		}
	}
	for f := range ssautilAllMethods(e.w) {
		fns = append(fns, f)
	}
	seen := map[*ssa.Function]bool{}
	var visit func(f *ssa.Function)
	visit = func(f *ssa.Function) {
		if f == nil || seen[f] || f.Name() == "init" {
			return
		}
		seen[f] = true
		for _, b := range f.Blocks {
			for _, in := range b.Instrs {
				for _, op := range in.Operands(nil) {
					if *op != ssa.Value(g) {
						continue
					}
					switch x := in.(type) {
					case *ssa.UnOp:
						if x.Op == token.MUL {
							continue // load
						}
					case *ssa.IndexAddr:
						okUse := true
						for _, r := range *x.Referrers() {
							if u, ok := r.(*ssa.UnOp); !ok || u.Op != token.MUL {
								okUse = false
							}
						}
						if okUse {
							continue
						}
					}
					bvFail("table %s is written or its address taken in %s", g.Name(), f.Name())
				}
			}
		}
		for _, a := range f.AnonFuncs {
			visit(a)
		}
	}
	for _, f := range fns {
		visit(f)
	}
}

func ssautilAllMethods(w *World) map[*ssa.Function]bool {
	r := map[*ssa.Function]bool{}
	for _, m := range w.Pkg.Members {
		t, ok := m.(*ssa.Type)
		if !ok {
			continue
		}
		for _, ty := range []types.Type{t.Type(), types.NewPointer(t.Type())} {
			ms := w.Prog.MethodSets.MethodSet(ty)
			for i := 0; i < ms.Len(); i++ {
				if f := w.Prog.MethodValue(ms.At(i)); f != nil && f.Pkg == w.Pkg {
					r[f] = true
				}
			}
		}
	}
	return r
}

// ---------- obligations ----------

func (e *bvEngine) oblige(p *bvPath, kind string, in ssa.Instruction, goal *Term) {
	pos := ""
	where := ""
	if in != nil {
		pos = e.w.Prog.Fset.Position(in.Pos()).String()
		where = fmt.Sprintf("@b%d", in.Block().Index)
	}
	base := fmt.Sprintf("%s/%s%s/%s", e.prefix, kind, where, p.mode)
	e.names[base]++
	name := fmt.Sprintf("%s#%d", base, e.names[base])
	e.nOb++
	wit := e.wit
	e.c.Add(&Obligation{Name: name, Group: e.prefix, Hyps: append([]*Term(nil), p.pc...), Goal: goal, Pos: pos,
		Funcs: []string{e.fn.Name()}, Witnesses: wit,
		Notes:  []string{"path " + strings.Join(p.trace, "-")},
		Replay: func(m map[string]string) string { return bvReplay(e.fn.Name(), m) }})
}

// ---------- ghost output ----------

var escPairs = [][2]int64{{34, 34}, {92, 92}, {47, 47}, {98, 8}, {102, 12}, {110, 10}, {114, 13}, {116, 9}}

func (e *bvEngine) emit(p *bvPath, x *Term, in ssa.Instruction) {
	switch p.phase {
	case 0:
		e.oblige(p, "opens-with-quote", in, Eq(x, IntLit(34)))
		p.phase = 1
		return
	case 2:
		e.oblige(p, "no-write-after-closing-quote", in, TFalse)
		return
	}
	c := p.consumed
	inb := func(k int64) *Term { return Lt(Add(c, IntLit(k)), e.n) }
	at := func(k int64) *Term { return Select(e.arr, Add(c, IntLit(k))) }
	if len(p.esc) == 0 {
		if v, ok := x.IntVal(); ok && v == 92 {
			p.esc = []*Term{x}
			return
		}
		if v, ok := x.IntVal(); ok && v == 34 {
			e.oblige(p, "closing-quote-after-whole-input", in, Eq(c, e.n))
			p.phase = 2
			return
		}
		e.oblige(p, "raw-byte-is-next-input-byte-and-safe", in, And(Ge(c, IntLit(0)), inb(0), Eq(x, at(0)), e.rawsafe(c)))
		p.consumed = Add(c, IntLit(1))
		return
	}
	p.esc = append(p.esc, x)
	switch {
	case len(p.esc) == 2:
		if v, ok := x.IntVal(); ok && v == 117 {
			return
		}
		var valid []*Term
		dec := IntLit(-1)
		for i := len(escPairs) - 1; i >= 0; i-- {
			valid = append(valid, Eq(x, IntLit(escPairs[i][0])))
			dec = Ite(Eq(x, IntLit(escPairs[i][0])), IntLit(escPairs[i][1]), dec)
		}
		e.oblige(p, "escape-is-a-json-escape", in, Or(valid...))
		e.oblige(p, "escape-decodes-to-next-input-byte", in, And(Ge(c, IntLit(0)), inb(0), Eq(at(0), dec)))
		p.consumed = Add(c, IntLit(1))
		p.esc = nil
	case len(p.esc) == 6:
		code := IntLit(0)
		for _, d := range p.esc[2:] {
			isHex := Or(And(Ge(d, IntLit(48)), Le(d, IntLit(57))), And(Ge(d, IntLit(97)), Le(d, IntLit(102))), And(Ge(d, IntLit(65)), Le(d, IntLit(70))))
			e.oblige(p, "unicode-escape-has-hex-digits", in, isHex)
			val := Ite(Le(d, IntLit(57)), Sub(d, IntLit(48)), Ite(Ge(d, IntLit(97)), Sub(d, IntLit(87)), Sub(d, IntLit(55))))
			code = Add(Mul(code, IntLit(16)), val)
		}
		e.seq++
		cv := Var(fmt.Sprintf("bv.code%d", e.seq), SInt)
		p.pc = append(p.pc, Eq(cv, code))
		lossy := And(Eq(cv, IntLit(0xFFFD)), App("bv.invalid", SBool, c), App("bv.boundary", SBool, c))
		e.oblige(p, "unicode-escape-no-surrogate", in, Not(And(Ge(cv, IntLit(0xD800)), Le(cv, IntLit(0xDFFF)))))
		one := And(inb(0), Eq(at(0), cv))
		two := And(inb(1), Eq(at(0), Add(IntLit(0xC0), divT(cv, 64))), Eq(at(1), Add(IntLit(0x80), modT(cv, 64))))
		three := And(inb(2), Eq(at(0), Add(IntLit(0xE0), divT(cv, 4096))), Eq(at(1), Add(IntLit(0x80), modT(divT(cv, 64), 64))), Eq(at(2), Add(IntLit(0x80), modT(cv, 64))))
		exact := And(Implies(Lt(cv, IntLit(0x80)), one),
			Implies(And(Ge(cv, IntLit(0x80)), Lt(cv, IntLit(0x800))), two),
			Implies(Ge(cv, IntLit(0x800)), three))
		e.oblige(p, "unicode-escape-decodes-to-next-input-bytes", in, And(Ge(c, IntLit(0)), inb(0), Or(lossy, exact)))
		p.consumed = Add(c, Ite(lossy, IntLit(1), Ite(Lt(cv, IntLit(0x80)), IntLit(1), Ite(Lt(cv, IntLit(0x800)), IntLit(2), IntLit(3)))))
		p.esc = nil
	}
}

func (e *bvEngine) emitRaw(p *bvPath, sl *bvSlice, in ssa.Instruction) {
	if sl.arr != e.arr {
		bvFail("Write of a slice that is not a view of the input")
	}
	switch p.phase {
	case 0:
		e.oblige(p, "opens-with-quote", in, TFalse)
		return
	case 2:
		e.oblige(p, "no-write-after-closing-quote", in, TFalse)
		return
	}
	if len(p.esc) != 0 {
		e.oblige(p, "raw-run-inside-unfinished-escape", in, TFalse)
		p.esc = nil
	}
	e.oblige(p, "raw-run-starts-where-output-stands", in, Or(Eq(sl.ln, IntLit(0)), Eq(sl.off, p.consumed)))
	e.seq++
	k := Bound(fmt.Sprintf("bv.k%d", e.seq), SInt)
	e.oblige(p, "raw-run-is-safe", in, Forall([]*Term{k}, Implies(And(Le(sl.off, k), Lt(k, Add(sl.off, sl.ln))), e.rawsafe(k))))
	p.consumed = Ite(Eq(sl.ln, IntLit(0)), p.consumed, Add(sl.off, sl.ln))
}

// ---------- execution ----------

func (e *bvEngine) exec(p *bvPath, b *ssa.BasicBlock, from *ssa.BasicBlock, depth int) {
	if b == e.header && from != nil {
		e.atHeader(p, from)
		return
	}
	for _, t := range p.trace {
		if t == fmt.Sprint(b.Index) {
			bvFail("a second loop (block %d re-entered) has no invariant", b.Index)
		}
	}
	// phis of an ordinary join
	idx := -1
	for i, pr := range b.Preds {
		if pr == from {
			idx = i
		}
	}
	vals := map[*ssa.Phi]interface{}{}
	for _, in := range b.Instrs {
		ph, ok := in.(*ssa.Phi)
		if !ok {
			break
		}
		if idx < 0 {
			bvFail("phi without predecessor")
		}
		vals[ph] = e.val(p, ph.Edges[idx])
	}
	for ph, v := range vals {
		p.env[ph] = v
	}
	e.execFrom(p, b, firstNonPhi(b), depth)
}

func (e *bvEngine) atHeader(p *bvPath, from *ssa.BasicBlock) {
	e.paths++
	idx := -1
	for i, pr := range e.header.Preds {
		if pr == from {
			idx = i
		}
	}
	q := p.clone()
	for _, in := range e.header.Instrs {
		ph, ok := in.(*ssa.Phi)
		if !ok {
			break
		}
		q.env[ph] = e.val(p, ph.Edges[idx])
	}
	last := from.Instrs[len(from.Instrs)-1]
	if p.phase != 1 {
		e.oblige(p, "inside-the-string-at-loop-head", last, TFalse)
	}
	if len(p.esc) != 0 {
		e.oblige(p, "escape-complete-at-loop-head", last, TFalse)
	}
	env := e.nameEnv(q, e.header)
	for i, iv := range e.inv {
		kind := "invariant-preserved"
		if p.mode == "entry" {
			kind = "invariant-established"
		}
		e.oblige(p, fmt.Sprintf("%s[%d:%s]", kind, i, truncate(iv.String(), 40)), last, e.eval(iv, env, p.consumed))
	}
	// termination: the measure of the contract decreases and is bounded below
	if ls := e.spec.Loops[0]; ls.Decreases != nil && p.mode == "body" {
		env0 := e.nameEnv(p, e.header)
		m0 := e.eval(ls.Decreases, env0, p.consumed)
		m1 := e.eval(ls.Decreases, env, p.consumed)
		e.oblige(p, "measure-decreases", last, And(Lt(m1, m0), Ge(m0, IntLit(0))))
	}
}

func (e *bvEngine) val(p *bvPath, v ssa.Value) interface{} {
	switch x := v.(type) {
	case *ssa.Const:
		if x.Value == nil {
			bvFail("nil constant")
		}
		switch x.Value.Kind() {
		case constant.Int:
			n, _ := constant.Int64Val(x.Value)
			return IntLit(n)
		case constant.Bool:
			return BoolLit(constant.BoolVal(x.Value))
		case constant.String:
			return &bvStr{constant.StringVal(x.Value)}
		}
		bvFail("constant %s", x)
	case *ssa.Global:
		return &bvGlobal{x}
	}
	r, ok := p.env[v]
	if !ok {
		bvFail("value %s (%T) not available", v.Name(), v)
	}
	return r
}

func (e *bvEngine) term(p *bvPath, v ssa.Value) *Term {
	t, ok := e.val(p, v).(*Term)
	if !ok {
		bvFail("value %s is not a scalar", v.Name())
	}
	return t
}

func (e *bvEngine) execFrom(p *bvPath, b *ssa.BasicBlock, start int, depth int) {
	if depth > 200 {
		bvFail("path too long")
	}
	p.trace = append(p.trace, fmt.Sprint(b.Index))
	for i := start; i < len(b.Instrs); i++ {
		switch in := b.Instrs[i].(type) {
		case *ssa.DebugRef:
		case *ssa.Phi:
			bvFail("phi after non-phi")
		case *ssa.BinOp:
			p.env[in] = e.binop(p, in)
		case *ssa.UnOp:
			p.env[in] = e.unop(p, in)
		case *ssa.Convert:
			p.env[in] = e.convert(p, in)
		case *ssa.ChangeType:
			p.env[in] = e.val(p, in.X)
		case *ssa.IndexAddr:
			idx := e.term(p, in.Index)
			switch x := e.val(p, in.X).(type) {
			case *bvSlice:
				e.oblige(p, "index-in-bounds", in, And(Ge(idx, IntLit(0)), Lt(idx, x.ln)))
				p.env[in] = &bvElemPtr{sl: x, idx: idx}
			case *bvGlobal:
				tb := e.tables[x.g.Name()]
				if tb == nil {
					bvFail("global %s is not a constant bool table", x.g.Name())
				}
				e.tableUntouched(x.g)
				e.oblige(p, "table-index-in-bounds", in, And(Ge(idx, IntLit(0)), Lt(idx, IntLit(int64(len(tb.vals))))))
				p.env[in] = &bvElemPtr{tbl: tb, idx: idx}
			default:
				bvFail("IndexAddr on %T", x)
			}
		case *ssa.Lookup:
			p.env[in] = e.strIndex(p, in, in.X, in.Index)
		case *ssa.Index:
			p.env[in] = e.strIndex(p, in, in.X, in.Index)
		case *ssa.Slice:
			x, ok := e.val(p, in.X).(*bvSlice)
			if !ok {
				bvFail("slice of %T", e.val(p, in.X))
			}
			lo, hi := IntLit(0), x.ln
			if in.Low != nil {
				lo = e.term(p, in.Low)
			}
			if in.High != nil {
				hi = e.term(p, in.High)
			}
			if in.Max != nil {
				bvFail("3-index slice")
			}
			e.oblige(p, "slice-in-bounds", in, And(Le(IntLit(0), lo), Le(lo, hi), Le(hi, x.ln)))
			p.env[in] = &bvSlice{arr: x.arr, off: Add(x.off, lo), ln: Sub(hi, lo)}
		case *ssa.Extract:
			t, ok := e.val(p, in.Tuple).(bvTuple)
			if !ok || in.Index >= len(t) {
				bvFail("extract")
			}
			p.env[in] = t[in.Index]
		case *ssa.Call:
			e.call(p, in)
		case *ssa.Jump:
			e.exec(p, b.Succs[0], b, depth+1)
			return
		case *ssa.If:
			c := e.term(p, in.Cond)
			if !c.IsFalse() {
				q := p.clone()
				q.pc = append(q.pc, c)
				e.exec(q, b.Succs[0], b, depth+1)
			}
			if !c.IsTrue() {
				q := p.clone()
				q.pc = append(q.pc, Not(c))
				e.exec(q, b.Succs[1], b, depth+1)
			}
			return
		case *ssa.Return:
			e.paths++
			if len(in.Results) != 0 {
				bvFail("function returns a value")
			}
			if p.phase != 2 {
				e.oblige(p, "returns-with-the-string-closed", in, TFalse)
			} else {
				e.oblige(p, "returns-with-the-string-closed", in, TTrue)
			}
			return
		default:
			bvFail("instruction %T (%s)", in, in)
		}
	}
}

func (e *bvEngine) strIndex(p *bvPath, in ssa.Instruction, xv, iv ssa.Value) *Term {
	s, ok := e.val(p, xv).(*bvStr)
	if !ok {
		bvFail("index on something that is not a constant string")
	}
	idx := e.term(p, iv)
	e.oblige(p, "string-index-in-bounds", in, And(Ge(idx, IntLit(0)), Lt(idx, IntLit(int64(len(s.s))))))
	r := IntLit(0)
	for j := len(s.s) - 1; j >= 0; j-- {
		r = Ite(Eq(idx, IntLit(int64(j))), IntLit(int64(s.s[j])), r)
	}
	return r
}

func (e *bvEngine) binop(p *bvPath, in *ssa.BinOp) interface{} {
	a, b := e.term(p, in.X), e.term(p, in.Y)
	switch in.Op {
	case token.ADD:
		return Add(a, b)
	case token.SUB:
		if !isSigned(in.Type()) {
			bvFail("unsigned subtraction")
		}
		return Sub(a, b)
	case token.LSS:
		return Lt(a, b)
	case token.LEQ:
		return Le(a, b)
	case token.GTR:
		return Gt(a, b)
	case token.GEQ:
		return Ge(a, b)
	case token.EQL:
		return Eq(a, b)
	case token.NEQ:
		return Neq(a, b)
	case token.SHR:
		if k, ok := b.IntVal(); ok && k >= 0 && k < 31 {
			e.nonneg(p, in, a)
			return divT(a, 1<<uint(k))
		}
	case token.AND:
		// a contiguous mask ((2^w - 1) << sh): x & m = ((x div 2^sh) mod 2^w) * 2^sh for x >= 0
		if k, ok := b.IntVal(); ok && k > 0 && k < 1<<31 {
			sh := uint(0)
			for k&(1<<sh) == 0 {
				sh++
			}
			w := k >> sh
			if (w+1)&w == 0 {
				e.nonneg(p, in, a)
				r := modT(a, w+1)
				if sh > 0 {
					r = Mul(modT(divT(a, 1<<sh), w+1), IntLit(1<<sh))
				}
				return r
			}
		}
	case token.OR:
		// x | y for disjoint operands is not needed by the escaper; left outside the subset
	}
	bvFail("binary operation %s", in)
	return nil
}

// nonneg: shifts and masks are modelled by div/mod, which is exact for non-negative operands.
func (e *bvEngine) nonneg(p *bvPath, in ssa.Instruction, a *Term) {
	if v, ok := a.IntVal(); ok && v >= 0 {
		return
	}
	e.oblige(p, "bit-operation-on-nonnegative-value", in, Ge(a, IntLit(0)))
}

func isSigned(t types.Type) bool {
	b, ok := t.Underlying().(*types.Basic)
	return ok && b.Info()&types.IsInteger != 0 && b.Info()&types.IsUnsigned == 0
}

func (e *bvEngine) unop(p *bvPath, in *ssa.UnOp) interface{} {
	switch in.Op {
	case token.NOT:
		return Not(e.term(p, in.X))
	case token.MUL:
		switch x := e.val(p, in.X).(type) {
		case *bvElemPtr:
			if x.tbl != nil {
				var ds []*Term
				for j, v := range x.tbl.vals {
					if v {
						ds = append(ds, Eq(x.idx, IntLit(int64(j))))
					}
				}
				return Or(ds...)
			}
			sel := Select(x.sl.arr, Add(x.sl.off, x.idx))
			p.pc = append(p.pc, Ge(sel, IntLit(0)), Le(sel, IntLit(255)))
			return sel
		case *bvGlobal:
			if s, ok := e.strs[x.g.Name()]; ok {
				e.tableUntouched(x.g)
				return &bvStr{s}
			}
			bvFail("load of global %s", x.g.Name())
		}
	}
	bvFail("unary operation %s", in)
	return nil
}

func (e *bvEngine) convert(p *bvPath, in *ssa.Convert) interface{} {
	x := e.term(p, in.X)
	from, ok1 := in.X.Type().Underlying().(*types.Basic)
	to, ok2 := in.Type().Underlying().(*types.Basic)
	if !ok1 || !ok2 || from.Info()&types.IsInteger == 0 || to.Info()&types.IsInteger == 0 {
		bvFail("conversion %s", in)
	}
	sz := func(b *types.Basic) int64 { return e.w.Sizes.Sizeof(b) }
	if sz(to) > sz(from) && from.Info()&types.IsUnsigned != 0 {
		return x // widening of an unsigned value
	}
	if sz(to) >= sz(from) && (from.Info()&types.IsUnsigned == 0) == (to.Info()&types.IsUnsigned == 0) {
		return x
	}
	// narrowing or sign change: exact when the value fits
	lo, hi := int64(0), int64(1)<<uint(8*sz(to))-1
	if to.Info()&types.IsUnsigned == 0 {
		lo, hi = -(int64(1) << uint(8*sz(to)-1)), int64(1)<<uint(8*sz(to)-1)-1
	}
	if sz(to) >= 8 {
		return x
	}
	e.oblige(p, "conversion-keeps-the-value", in, And(Ge(x, IntLit(lo)), Le(x, IntLit(hi))))
	return x
}

func (e *bvEngine) call(p *bvPath, in *ssa.Call) {
	cc := in.Common()
	if b, ok := cc.Value.(*ssa.Builtin); ok {
		if b.Name() == "len" {
			switch x := e.val(p, cc.Args[0]).(type) {
			case *bvSlice:
				p.env[in] = x.ln
				return
			case *bvStr:
				p.env[in] = IntLit(int64(len(x.s)))
				return
			}
		}
		bvFail("builtin %s", b.Name())
	}
	f := cc.StaticCallee()
	if f == nil {
		bvFail("dynamic call %s", in)
	}
	full := f.String()
	switch full {
	case "unicode/utf8.DecodeRune":
		sl, ok := e.val(p, cc.Args[0]).(*bvSlice)
		if !ok || sl.arr != e.arr {
			bvFail("DecodeRune of something that is not a view of the input")
		}
		p.env[in] = e.decodeRuneContract(p, sl)
		return
	case "(*bytes.Buffer).WriteRune", "(*bytes.Buffer).WriteByte", "(*bytes.Buffer).WriteString", "(*bytes.Buffer).Write":
		if _, ok := e.val(p, cc.Args[0]).(*bvBuf); !ok {
			bvFail("write to another buffer")
		}
		switch a := e.val(p, cc.Args[1]).(type) {
		case *Term:
			if f.Name() == "WriteRune" {
				if v, ok := a.IntVal(); !ok || v < 0 || v >= 128 {
					e.oblige(p, "rune-written-is-ascii", in, And(Ge(a, IntLit(0)), Lt(a, IntLit(128))))
				}
			}
			e.emit(p, a, in)
		case *bvStr:
			for j := 0; j < len(a.s); j++ {
				e.emit(p, IntLit(int64(a.s[j])), in)
			}
		case *bvSlice:
			e.emitRaw(p, a, in)
		default:
			bvFail("write of %T", a)
		}
		p.env[in] = bvTuple{IntLit(0), nil}
		return
	}
	bvFail("call of %s", full)
}

// decodeRuneContract is the assumed contract of unicode/utf8.DecodeRune (see the package documentation).
func (e *bvEngine) decodeRuneContract(p *bvPath, sl *bvSlice) bvTuple {
	e.seq++
	r := Var(fmt.Sprintf("bv.rune%d", e.seq), SInt)
	sz := Var(fmt.Sprintf("bv.size%d", e.seq), SInt)
	o := sl.off
	at := func(k int64) *Term { return Select(e.arr, Add(o, IntLit(k))) }
	inv := And(Eq(r, IntLit(0xFFFD)), Eq(sz, IntLit(1)))
	vrb := func(k int64) *Term {
		return Implies(Lt(IntLit(k), sz), App("bv.vrb", SBool, Add(o, IntLit(k))))
	}
	valid := And(
		Iff(Eq(sz, IntLit(1)), Lt(r, IntLit(0x80))),
		Iff(Eq(sz, IntLit(2)), And(Ge(r, IntLit(0x80)), Lt(r, IntLit(0x800)))),
		Iff(Eq(sz, IntLit(3)), And(Ge(r, IntLit(0x800)), Lt(r, IntLit(0x10000)))),
		Iff(Eq(sz, IntLit(4)), Ge(r, IntLit(0x10000))),
		Not(And(Ge(r, IntLit(0xD800)), Le(r, IntLit(0xDFFF)))),
		Implies(Eq(sz, IntLit(1)), Eq(at(0), r)),
		Implies(Eq(sz, IntLit(2)), And(Eq(at(0), Add(IntLit(0xC0), divT(r, 64))), Eq(at(1), Add(IntLit(0x80), modT(r, 64))))),
		Implies(Eq(sz, IntLit(3)), And(Eq(at(0), Add(IntLit(0xE0), divT(r, 4096))), Eq(at(1), Add(IntLit(0x80), modT(divT(r, 64), 64))), Eq(at(2), Add(IntLit(0x80), modT(r, 64))))),
		Implies(Eq(sz, IntLit(4)), And(Eq(at(0), Add(IntLit(0xF0), divT(r, 262144))), Eq(at(1), Add(IntLit(0x80), modT(divT(r, 4096), 64))), Eq(at(2), Add(IntLit(0x80), modT(divT(r, 64), 64))), Eq(at(3), Add(IntLit(0x80), modT(r, 64))))),
		vrb(0), vrb(1), vrb(2), vrb(3),
	)
	fact := Ite(Eq(sl.ln, IntLit(0)),
		And(Eq(r, IntLit(0xFFFD)), Eq(sz, IntLit(0))),
		And(Ge(sz, IntLit(1)), Le(sz, IntLit(4)), Le(sz, sl.ln), Ge(r, IntLit(0)), Le(r, IntLit(0x10FFFF)),
			Iff(App("bv.invalid", SBool, o), inv),
			Implies(App("bv.boundary", SBool, o), App("bv.boundary", SBool, Add(o, sz))),
			Implies(Not(inv), valid)))
	p.pc = append(p.pc, fact)
	return bvTuple{r, sz}
}

// ---------- replay ----------

// bvReplay builds candidate inputs from the model's window of bytes at each loop variable and runs the real
// escaper on them, decoding its output with encoding/json.
func bvReplay(fn string, m map[string]string) string {
	num := func(s string) (int64, bool) {
		s = strings.TrimSpace(s)
		neg := false
		if strings.HasPrefix(s, "(-") {
			neg = true
			s = strings.TrimSpace(strings.TrimSuffix(strings.TrimPrefix(s, "(-"), ")"))
		}
		var n int64
		if _, err := fmt.Sscanf(s, "%d", &n); err != nil {
			return 0, false
		}
		if neg {
			n = -n
		}
		return n, true
	}
	n, _ := num(m["len"])
	var names []string
	for k := range m {
		if strings.HasPrefix(k, "at_") {
			names = append(names, strings.TrimPrefix(k, "at_"))
		}
	}
	sort.Strings(names)
	var wins []string
	for _, nm := range names {
		at, ok := num(m["at_"+nm])
		if !ok {
			continue
		}
		var bs []string
		for j := int64(0); j < 4 && at+j < n; j++ {
			v, ok := num(m[fmt.Sprintf("b_%s_%d", nm, j)])
			if !ok || v < 0 || v > 255 {
				break
			}
			bs = append(bs, fmt.Sprint(v))
			wins = append(wins, "{"+strings.Join(bs, ", ")+"}")
		}
	}
	if len(wins) == 0 {
		wins = append(wins, "{}")
	}
	return `package activitypub

import (
	"bytes"
	"encoding/json"
	"testing"
	"unicode/utf8"
)

// replay of a byte-level obligation of ` + fn + `: inputs built from the solver's window of bytes
func TestVerifReplay(t *testing.T) {
	wins := [][]byte{` + strings.Join(wins, ", ") + `}
	want := func(s []byte) string {
		var o []byte
		for i := 0; i < len(s); {
			r, sz := utf8.DecodeRune(s[i:])
			if r == utf8.RuneError && sz == 1 {
				o = append(o, "�"...)
			} else {
				o = append(o, s[i:i+sz]...)
			}
			i += sz
		}
		return string(o)
	}
	cat := func(parts ...[]byte) []byte { return bytes.Join(parts, nil) }
	for _, w := range wins {
		cands := [][]byte{w, cat([]byte("a"), w), cat(w, []byte("b")), cat([]byte("a"), w, []byte("b")), cat(w, w),
			cat([]byte("ab"), w, []byte("cd"), w, []byte("e"))}
		for _, in := range cands {
			for _, html := range []bool{false, true} {
				var buf bytes.Buffer
				` + fn + `(&buf, in, html)
				if !utf8.Valid(buf.Bytes()) {
					t.Fatalf("input %q (escapeHTML=%v): output %q is not valid UTF-8, so not a JSON text", in, html, buf.Bytes())
				}
				var got string
				if err := json.Unmarshal(buf.Bytes(), &got); err != nil {
					t.Fatalf("input %q (escapeHTML=%v): output %q is not a JSON string: %v", in, html, buf.Bytes(), err)
				}
				if got != want(in) {
					t.Fatalf("input %q (escapeHTML=%v): output %q decodes to %q", in, html, buf.Bytes(), got)
				}
			}
		}
	}
}
`
}
