package main

import (
	"fmt"
	"go/types"
	"strings"

	"golang.org/x/tools/go/ssa"
)

func init() { drivers["C03"] = checkC03 }

// installGobItemContracts: the recursive item codec and the language-value codec enter nested positions
// by contract (induction hypothesis): decoding what the encoder produced yields the value that was
// encoded. The bodies of gobEncodeItem/gobDecodeItem are verified at top level (group C03/item/...).
func installGobItemContracts(ex *Exec, w *World) {
	itemT := w.TPkg.Scope().Lookup("Item").Type()
	nlvT := w.Type("NaturalLanguageValues")
	iriT := w.Type("IRI")
	encItem := func(ex *Exec, st *State, fn *ssa.Function, a []Value) (Value, bool) {
		iv := ex.normIface(a[0].(*IfaceVal))
		isNil := ex.ifaceEq(iv, &IfaceVal{Alts: []IfaceAlt{{C: TTrue}}})
		t := ex.gobRegister(itemT, iv, "item")
		var res *Term = t
		// an IRI is written as its raw bytes (this is what the body does: `return []byte(i), nil`)
		for _, al := range iv.Alts {
			if al.Opaque == nil && al.T != nil && types.Identical(al.T, iriT) {
				res = Ite(al.C, S2B(al.V.(*Term)), res)
			}
		}
		// a nil item encodes to nothing
		return &TupleVal{V: []Value{Ite(isNil, BytesNil, res), ErrNil}}, true
	}
	ex.hooks["gobEncodeItem"] = encItem
	ex.hooks["gobEncodeItemOrLink"] = encItem
	ex.hooks["gobEncodeItems"] = func(ex *Exec, st *State, fn *ssa.Function, a []Value) (Value, bool) {
		col := a[0].(*SliceVal)
		iv := &IfaceVal{Alts: []IfaceAlt{{C: TTrue, T: w.Type("ItemCollection"), V: col}}}
		return &TupleVal{V: []Value{ex.gobRegister(itemT, iv, "items"), ErrNil}}, true
	}
	decodeItem := func(ex *Exec, st *State, raw *Term, wantList bool) (Value, *Term) {
		var res Value
		var errT *Term = ErrNil
		fail := freshErr(ex, "gobitem")
		bytesLeaves(raw, TTrue, func(c, leaf *Term) {
			var v Value
			if e, ok := ex.gobReg[leaf]; ok && types.Identical(e.T, itemT) {
				iv := e.V.(*IfaceVal)
				if wantList {
					okc, sl := ex.assertTo(ex.normIface(iv), w.Type("ItemCollection"))
					if sl == nil {
						okc, sl = TFalse, ex.zeroValue(w.Type("ItemCollection"))
					}
					v = sl
					errT = Ite(And(c, Not(okc)), fail, errT)
				} else {
					v = iv
				}
			} else if leaf.Op == "app" && leaf.Name == "s2b" && !wantList {
				// raw string bytes decode as an IRI (the final fallback of gobDecodeItem)
				v = &IfaceVal{Alts: []IfaceAlt{{C: TTrue, T: iriT, V: leaf.Args[0]}}}
			} else {
				// anything else: unknown outcome
				okU := App("gobitem.ok", SBool, leaf)
				if wantList {
					v = ex.symValue(w.Type("ItemCollection"), ufNamer("gobitems.dec", leaf), false)
				} else {
					v = ex.symValue(itemT, ufNamer("gobitem.dec", leaf), false)
				}
				errT = Ite(And(c, Not(okU)), fail, errT)
			}
			if res == nil {
				res = v
			} else {
				res = ex.merge(c, v, res)
			}
		})
		return res, errT
	}
	ex.hooks["gobDecodeItem"] = func(ex *Exec, st *State, fn *ssa.Function, a []Value) (Value, bool) {
		v, e := decodeItem(ex, st, a[0].(*Term), false)
		return &TupleVal{V: []Value{v, e}}, true
	}
	ex.hooks["gobDecodeItems"] = func(ex *Exec, st *State, fn *ssa.Function, a []Value) (Value, bool) {
		v, e := decodeItem(ex, st, a[0].(*Term), true)
		return &TupleVal{V: []Value{v, e}}, true
	}
	ex.hooks["(NaturalLanguageValues).GobEncode"] = func(ex *Exec, st *State, fn *ssa.Function, a []Value) (Value, bool) {
		n := a[0].(*SliceVal)
		t := ex.gobRegister(nlvT, n, "nlv")
		return &TupleVal{V: []Value{Ite(Eq(sliceLen(n), IntLit(0)), BytesLit(""), t), ErrNil}}, true
	}
	decNLV := func(ex *Exec, st *State, raw *Term) (Value, *Term) {
		var res Value = ex.zeroValue(nlvT)
		var errT *Term = ErrNil
		fail := freshErr(ex, "gobnlv")
		bytesLeaves(raw, TTrue, func(c, leaf *Term) {
			if e, ok := ex.gobReg[leaf]; ok && types.Identical(e.T, nlvT) {
				res = ex.merge(c, e.V, res)
				return
			}
			if leaf == BytesNil || leaf == BytesLit("") {
				return
			}
			if _, ok := ex.gobReg[leaf]; ok {
				errT = Ite(c, fail, errT)
				return
			}
			okU := App("gobnlv.ok", SBool, leaf)
			res = ex.merge(And(c, okU), ex.symValue(nlvT, ufNamer("gobnlv.dec", leaf), false), res)
			errT = Ite(And(c, Not(okU)), fail, errT)
		})
		return res, errT
	}
	ex.hooks["gobDecodeNaturalLanguageValues"] = func(ex *Exec, st *State, fn *ssa.Function, a []Value) (Value, bool) {
		v, e := decNLV(ex, st, a[0].(*Term))
		return &TupleVal{V: []Value{v, e}}, true
	}
	ex.hooks["(*NaturalLanguageValues).GobDecode"] = func(ex *Exec, st *State, fn *ssa.Function, a []Value) (Value, bool) {
		v, e := decNLV(ex, st, a[1].(*Term))
		p := a[0].(*PtrVal)
		old := ex.load(st, p, nlvT, 0).(*SliceVal)
		// decoding appends to the receiver; on an empty receiver the result is the decoded list
		ex.store(st, p, ex.merge(Eq(sliceLen(old), IntLit(0)), v, ex.symValue(nlvT, varNamer(fmt.Sprintf("nlvappend!%d", ex.objSeq)), false)), 0)
		return e, true
	}
}

// normEq: equality up to the gob normal form (only unset/empty is normalised).
func (ex *Exec) normEq(st *State, a, b Value, t types.Type) *Term {
	switch x := a.(type) {
	case *Term:
		y := b.(*Term)
		if x.S == SBytes {
			return Or(Eq(x, y), And(Eq(BLen(x), IntLit(0)), Eq(BLen(y), IntLit(0))))
		}
		if x.S == STime {
			// the zero instant is "unset" whatever its zone
			return Or(Eq(x, y), And(Eq(Inst(x), IntLit(0)), Eq(Inst(y), IntLit(0))))
		}
		return Eq(x, y)
	case *IfaceVal:
		return Eq(ex.abstractItem(x), ex.abstractItem(b.(*IfaceVal)))
	case *SliceVal:
		y := b.(*SliceVal)
		return Or(ex.sliceIdentical(x, y), And(Eq(sliceLen(x), IntLit(0)), Eq(sliceLen(y), IntLit(0))))
	case *StructVal:
		y := b.(*StructVal)
		stT := x.T.Underlying().(*types.Struct)
		var cs []*Term
		for i := range x.F {
			cs = append(cs, ex.normEq(st, x.F[i], y.F[i], stT.Field(i).Type()))
		}
		return And(cs...)
	case *PtrVal:
		y := b.(*PtrVal)
		el := t.Underlying().(*types.Pointer).Elem()
		bothNil := And(Not(nonNilPtr(x)), Not(nonNilPtr(y)))
		var cs []*Term
		// unset and empty are identified: a nil pointer and a pointer to a value whose every field is unset
		zero := ex.zeroValue(el)
		for _, side := range [][2]*PtrVal{{x, y}, {y, x}} {
			for _, p := range side[1].Alts {
				if p.O == nil {
					continue
				}
				pv := ex.navigate(st, ex.heapGet(st, p.O), p.Path, p.O)
				cs = append(cs, And(Not(nonNilPtr(side[0])), p.C, ex.normEq(st, pv, zero, el)))
			}
		}
		for _, p := range x.Alts {
			for _, q := range y.Alts {
				if p.O == nil || q.O == nil {
					continue
				}
				pv := ex.navigate(st, ex.heapGet(st, p.O), p.Path, p.O)
				qv := ex.navigate(st, ex.heapGet(st, q.O), q.Path, q.O)
				cs = append(cs, And(p.C, q.C, ex.normEq(st, pv, qv, el)))
			}
		}
		return Or(append(cs, bothNil)...)
	}
	return ex.valueEq(a, b)
}

var c03Structs = append(append([]string{}, allStructNames...), "Source", "PublicKey", "Endpoints")

func checkC03(w *World, c *Check) {
	c.Trusted = append(c.Trusted,
		"encoding/gob: Encoder.Encode never fails and produces a non-empty stream; Decoder.Decode on that stream yields the encoded value iff the target Go type is identical, otherwise (other type, empty input, raw string bytes) a non-nil error with the target untouched",
		"time.Time.GobEncode/GobDecode round-trip the instant with nanoseconds and zone (same assumed pair)",
		"induction hypothesis at nested positions: gobDecodeItem/gobDecodeItems(gobEncodeItem(i)) = i and NaturalLanguageValues.GobDecode(GobEncode(n)) = n (the item codec's dispatch is verified at top level in group C03/item and in C07; the language-value codec is property C06)",
		"C08 views; go/types + go/ssa (x/tools v0.29.0); SMT solvers' unsat answers")
	c.Assume = append(c.Assume,
		"normal form: unset and empty values are identified (nil vs empty list/text, nil item); nothing else is normalised: instants keep nanoseconds and zone, negative numbers and durations must survive",
		"domain: every field of the value is arbitrary; embedded items are arbitrary items (by contract)")

	for _, tn := range c03Structs {
		tn := tn
		grp := "C03/" + tn + ".GobRoundTrip"
		guard(c, grp, func() {
			ex := w.NewExec()
			installGobItemContracts(ex, w)
			st := newState()
			T := w.Type(tn)
			_, _, sv := ex.symItemOfTypeAny(T, "x")
			enc := w.Method(tn, "GobEncode")
			var recv Value = sv
			if _, isPtr := enc.Signature.Recv().Type().Underlying().(*types.Pointer); isPtr {
				o := ex.newObj("x", OCell, T)
				st.heap[o] = sv
				recv = &PtrVal{Alts: []PtrAlt{{C: TTrue, O: o}}}
			}
			r := ex.Call(st, enc, []Value{recv}, nil).(*TupleVal)
			data, err1 := r.V[0].(*Term), r.V[1].(*Term)
			yo := ex.newObj("y", OCell, T)
			st.heap[yo] = ex.zeroValue(T)
			yp := &PtrVal{Alts: []PtrAlt{{C: TTrue, O: yo}}}
			err2 := ex.Call(st, w.Method("*"+tn, "GobDecode"), []Value{yp, data}, nil).(*Term)
			y := ex.heapGet(st, yo).(*StructVal)
			common := append([]*Term{ex.NoPanic(), st.pc}, ex.assumes...)
			pos := ex.pos(enc.Pos())
			fns := []string{"(" + tn + ").GobEncode", "(*" + tn + ").GobDecode", "map" + tn + "Properties", "unmap" + tn + "Properties"}
			c.Add(&Obligation{Name: grp + "/encode-ok", Group: grp, Common: common, Goal: Eq(err1, ErrNil), Pos: pos, Funcs: fns})
			c.Add(&Obligation{Name: grp + "/decode-ok", Group: grp, Common: common, Goal: Eq(err2, ErrNil), Pos: pos, Funcs: fns})
			stT := T.Underlying().(*types.Struct)
			hy := []*Term{Eq(err1, ErrNil), Eq(err2, ErrNil)}
			for k := 0; k < stT.NumFields(); k++ {
				f := stT.Field(k)
				c.Add(&Obligation{Name: fmt.Sprintf("%s/field=%s", grp, f.Name()), Group: grp, Common: common, Hyps: hy,
					Goal: ex.normEq(st, y.F[k], sv.F[k], f.Type()), Pos: pos, Funcs: fns, Replay: c03Replay(tn, f.Name(), f.Type())})
			}
			for i, p := range ex.panics {
				c.Add(&Obligation{Name: fmt.Sprintf("%s/nopanic/%s@%s#%d", grp, p.Kind, p.Fn, i), Group: grp + "/nopanic", Common: ex.assumes, Goal: Not(p.C), Pos: p.Pos, Funcs: fns})
			}
			for _, n := range sortedNotes(ex) {
				c.Notes = appendUnique(c.Notes, n)
			}
		})
	}

	// top-level and nested items: the dispatch of the recursive item codec (same obligations as C07's gob part)
	names := []string{""}
	entry := map[string]vocabEntry{"": {Name: "", Family: "object", GoType: "Object"}}
	for _, e := range vocab {
		names = append(names, e.Name)
		entry[e.Name] = e
	}
	gobDispatchObligations(w, c, "C03", names, entry)
}

// symItemOfTypeAny: like symItemOfType but also for struct types that are not items.
func (ex *Exec) symItemOfTypeAny(t types.Type, prefix string) (*IfaceVal, *Obj, *StructVal) {
	sv := ex.symValue(t, varNamer(prefix), false).(*StructVal)
	return nil, nil, sv
}

// c03Replay: encodes a value with only that field set to a sample (incl. a negative / sub-second one)
// with the real codec and compares the field after decoding.
func c03Replay(tn, field string, ft types.Type) func(map[string]string) string {
	return func(map[string]string) string {
		var vals []string
		switch classify(ft) {
		case KIface:
			vals = []string{`IRI("https://example.com/verif/a")`, `&Object{ID: "https://example.com/verif/o", Type: NoteType}`, `&Link{Href: "https://example.com/verif/l", Type: LinkType}`}
		case KStr:
			vals = []string{fmt.Sprintf("%s(%q)", typeName(ft), "text/x")}
		case KInt:
			vals = []string{typeName(ft) + "(5)"}
			if b, ok := ft.Underlying().(*types.Basic); ok && b.Info()&types.IsUnsigned == 0 {
				vals = append(vals, typeName(ft)+"(-5)")
			}
		case KFloat:
			vals = []string{"1.5", "-1.5"}
		case KBool:
			vals = []string{"true"}
		case KTime:
			vals = []string{"time.Date(2020, 1, 2, 3, 4, 5, 678, time.FixedZone(\"x\", 3600))"}
		case KBytes:
			vals = []string{typeName(ft) + `("a")`}
		case KSlice:
			switch typeName(ft) {
			case "ItemCollection":
				vals = []string{`ItemCollection{IRI("https://example.com/verif/a"), &Object{ID: "https://example.com/verif/o", Type: NoteType}}`}
			case "NaturalLanguageValues":
				vals = []string{`NaturalLanguageValues{{Ref: NilLangRef, Value: Content("a")}, {Ref: "fr", Value: Content("b")}}`}
			}
		case KStruct:
			switch typeName(ft) {
			case "Source":
				vals = []string{`Source{MediaType: "text/a", Content: NaturalLanguageValues{{Value: Content("a")}}}`}
			case "PublicKey":
				vals = []string{`PublicKey{ID: "https://example.com/verif/k", Owner: IRI("https://example.com/verif/o"), PublicKeyPem: "pem"}`}
			}
		case KPtr:
			if strings.HasSuffix(typeName(ft), "Endpoints") {
				vals = []string{`&Endpoints{SharedInbox: IRI("https://example.com/verif/shared")}`}
			}
		}
		if len(vals) == 0 {
			return ""
		}
		return fmt.Sprintf(`package activitypub

import (
	"reflect"
	"testing"
	"time"
)

var _ = time.Now

func TestVerifReplay(t *testing.T) {
	for _, v := range []any{%s} {
		in := %s{}
		fv := reflect.ValueOf(&in).Elem().FieldByName(%q)
		_ = in.%s
		fv.Set(reflect.ValueOf(v).Convert(fv.Type()))
		if f := reflect.ValueOf(&in).Elem().FieldByName("ID"); f.IsValid() && %q != "ID" {
			f.SetString("https://example.com/verif/1")
		}
		data, err := in.GobEncode()
		if err != nil {
			t.Fatalf("GobEncode: %%v", err)
		}
		out := %s{}
		if err := out.GobDecode(data); err != nil {
			t.Fatalf("GobDecode: %%v", err)
		}
		got, want := reflect.ValueOf(out).FieldByName(%q).Interface(), reflect.ValueOf(in).FieldByName(%q).Interface()
		if tw, ok := want.(time.Time); ok {
			if tg := got.(time.Time); !tg.Equal(tw) || tg.Nanosecond() != tw.Nanosecond() {
				t.Fatalf("%s.%s: stored %%v, read back %%v", tw, tg)
			}
			continue
		}
		if wi, ok := want.(Item); ok {
			gi, _ := got.(Item)
			if !ItemsEqual(gi, wi) || (gi == nil) != (wi == nil) || gi != nil && (gi.GetType() != wi.GetType() || reflect.TypeOf(gi) != reflect.TypeOf(wi)) {
				t.Fatalf("%s.%s: stored %%#v, read back %%#v", want, got)
			}
			continue
		}
		if !reflect.DeepEqual(got, want) {
			t.Fatalf("%s.%s: stored %%#v, read back %%#v", want, got)
		}
	}
}
`, strings.Join(vals, ", "), tn, field, field, field, tn, field, field, tn, field, tn, field, tn, field)
	}
}
