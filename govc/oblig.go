package main

// Obligations, discharge, known findings, replay and evidence.

import (
	"encoding/json"
	"fmt"
	"os"
	"os/exec"
	"path/filepath"
	"regexp"
	"sort"
	"strings"
	"sync"
	"time"
)

type Witness struct {
	Name string
	T    *Term
}

type Obligation struct {
	Name      string
	Hyps      []*Term
	Goal      *Term
	Pos       string
	Bounded   int // >0: generated in bounded mode with this bound
	Witnesses []Witness
	// Replay builds a Go test (package activitypub, func TestVerifReplay) from witness values.
	Replay func(w map[string]string) string
	// EngineErr non-empty: VC generation failed (outside subset / engine error)
	EngineErr string
	Funcs     []string // functions under contract exercised
	Notes     []string
	// ExpectSat marks cover/vacuity probes: the query must be satisfiable.
	ExpectSat bool
}

type ObResult struct {
	Ob       *Obligation
	Status   string // proved | bounded | violated | undischarged | engine-error | cover-ok | cover-failed
	Solver   string
	Secs     float64
	Output   string
	Witness  map[string]string
	SMTFile  string
	SMTBytes int
	Replay   *ReplayRec
}

type ReplayRec struct {
	Obligation string            `json:"obligation"`
	Property   string            `json:"property"`
	Pos        string            `json:"source_position,omitempty"`
	Status     string            `json:"status"`
	Solver     string            `json:"solver,omitempty"`
	SolverOut  string            `json:"solver_output,omitempty"`
	SMTFile    string            `json:"smt_file,omitempty"`
	Witness    map[string]string `json:"witness,omitempty"`
	GoTest     string            `json:"go_test,omitempty"`
	Reproduced bool              `json:"reproduced_on_real_code"`
	ReplayOut  string            `json:"replay_output,omitempty"`
	Note       string            `json:"note,omitempty"`
}

type Finding struct {
	Property   string `json:"property"`
	Obligation string `json:"obligation"`
	Status     string `json:"status"` // open | fixed
	Commit     string `json:"commit,omitempty"`
	What       string `json:"what"`
}

type Check struct {
	Prop      string
	Tier      string
	Seed      int64
	Timeout   int
	WorkDir   string
	Obls      []*Obligation
	Results   []*ObResult
	Assume    []string
	Trusted   []string
	FUC       map[string]bool
	Start     time.Time
	Inlined   map[string]bool
	Notes     []string
	NeedTwo   bool
	Exhaustive bool
}

var verifDir = "/verif"

func NewCheck(prop, tier string) *Check {
	c := &Check{Prop: prop, Tier: tier, Timeout: 10, FUC: map[string]bool{}, Inlined: map[string]bool{}, Start: time.Now()}
	if tier == "thorough" {
		c.Timeout = 60
		c.NeedTwo = true
	}
	if s := os.Getenv("VERIF_SEED"); s != "" {
		fmt.Sscan(s, &c.Seed)
	}
	c.WorkDir = filepath.Join(verifDir, "work", prop)
	os.RemoveAll(c.WorkDir)
	os.MkdirAll(c.WorkDir, 0o755)
	return c
}

func (c *Check) Add(o *Obligation) { c.Obls = append(c.Obls, o) }

var nameSan = regexp.MustCompile(`[^A-Za-z0-9_.=+-]+`)

func sanitize(s string) string { return nameSan.ReplaceAllString(s, "_") }

var getValRe = regexp.MustCompile(`\(\|?(w![^\s|()]+)\|?\s+((?:\([^()]*(?:\([^()]*\))?[^()]*\))|[^\s()]+)\)`)

func parseGetValue(out string) map[string]string {
	m := map[string]string{}
	for _, mm := range getValRe.FindAllStringSubmatch(out, -1) {
		v := strings.TrimSpace(mm[2])
		v = strings.ReplaceAll(v, "(- ", "-")
		v = strings.TrimSuffix(v, ")")
		if strings.HasPrefix(v, "(/ ") {
			v = strings.TrimPrefix(v, "(/ ")
		}
		m[strings.TrimPrefix(mm[1], "w!")] = v
	}
	return m
}

func (c *Check) Run() {
	// terms are hash-consed in a global table that is not thread safe:
	// render sequentially, solve in parallel.
	var wg sync.WaitGroup
	workers := 12
	c.Results = make([]*ObResult, len(c.Obls))
	sem := make(chan struct{}, workers)
	for i, o := range c.Obls {
		i := i
		r := c.prepare(o)
		c.Results[i] = r
		if r.Status != "" {
			continue
		}
		wg.Add(1)
		sem <- struct{}{}
		go func() {
			defer wg.Done()
			defer func() { <-sem }()
			c.solve(r)
		}()
	}
	wg.Wait()
}

type prepared struct {
	body, tail, name string
}

var prep = map[*ObResult]*prepared{}
var prepMu sync.Mutex

func (c *Check) prepare(o *Obligation) *ObResult {
	r := &ObResult{Ob: o}
	if o.EngineErr != "" {
		r.Status = "engine-error"
		r.Output = o.EngineErr
		return r
	}
	hyp := And(o.Hyps...)
	var q *Term
	if o.ExpectSat {
		q = And(hyp, o.Goal)
	} else {
		q = And(hyp, Not(o.Goal))
	}
	if q == TFalse {
		if o.ExpectSat {
			r.Status = "cover-failed"
			r.Output = "cover condition is syntactically unsatisfiable"
			return r
		}
		r.Status = "proved"
		if o.Bounded > 0 {
			r.Status = "bounded"
		}
		r.Solver = "engine-simplifier"
		return r
	}
	sc := &Script{Asserts: []*Term{q}, Comment: []string{"obligation " + o.Name, "position " + o.Pos}}
	var wnames []string
	for _, w := range o.Witnesses {
		wv := Var("w!"+w.Name, w.T.S)
		sc.Asserts = append(sc.Asserts, Eq(wv, w.T))
		wnames = append(wnames, smtSym("w!"+w.Name))
	}
	var body string
	func() {
		defer func() {
			if e := recover(); e != nil {
				r.Status = "engine-error"
				r.Output = fmt.Sprint("render: ", e)
			}
		}()
		body = sc.Render(theoryAxioms)
	}()
	if r.Status != "" {
		return r
	}
	if len(body) > 4<<20 {
		r.Status = "engine-error"
		r.Output = fmt.Sprintf("VC exceeds size cap: %d bytes", len(body))
		return r
	}
	r.SMTBytes = len(body)
	tail := ""
	if len(wnames) > 0 {
		tail = "(get-value (" + strings.Join(wnames, " ") + "))\n"
	}
	prepMu.Lock()
	prep[r] = &prepared{body: body, tail: tail, name: sanitize(o.Name)}
	prepMu.Unlock()
	return r
}

func (c *Check) solve(r *ObResult) {
	prepMu.Lock()
	p := prep[r]
	delete(prep, r)
	prepMu.Unlock()
	o := r.Ob
	sr := solveWithTail(c.WorkDir, p.name, p.body, p.tail, c.Timeout, c.NeedTwo)
	r.Solver, r.Secs, r.Output = sr.Solver, sr.Secs, sr.Output
	r.SMTFile = filepath.Join(c.WorkDir, p.name+"."+sr.Solver+".smt2")
	if sr.Solver == "" {
		r.SMTFile = filepath.Join(c.WorkDir, p.name+".z3-new.smt2")
	}
	switch sr.Status {
	case "unsat":
		if o.ExpectSat {
			r.Status = "cover-failed"
		} else if o.Bounded > 0 {
			r.Status = "bounded"
		} else {
			r.Status = "proved"
		}
	case "sat":
		if o.ExpectSat {
			r.Status = "cover-ok"
		} else {
			r.Status = "violated"
			r.Witness = parseGetValue(sr.Output)
		}
	case "error":
		r.Status = "engine-error"
	default:
		r.Status = "undischarged"
		if o.ExpectSat {
			r.Status = "cover-failed"
		}
	}
}

// ---------- known findings ----------

func loadFindings() []Finding {
	var f struct {
		Findings []Finding `json:"findings"`
	}
	b, err := os.ReadFile(filepath.Join(verifDir, "known_findings.json"))
	if err != nil {
		return nil
	}
	if err := json.Unmarshal(b, &f); err != nil {
		fmt.Fprintln(os.Stderr, "govc: known_findings.json unreadable:", err)
		return nil
	}
	return f.Findings
}

func matchFinding(fs []Finding, prop, ob string) *Finding {
	for i := range fs {
		f := &fs[i]
		if f.Property != prop || f.Status != "open" {
			continue
		}
		if f.Obligation == ob {
			return f
		}
		if strings.HasSuffix(f.Obligation, "*") && strings.HasPrefix(ob, strings.TrimSuffix(f.Obligation, "*")) {
			return f
		}
	}
	return nil
}

// ---------- replay ----------

func runReplayTest(src string) (failed bool, out string) {
	dir, err := os.MkdirTemp("", "govc-replay-")
	if err != nil {
		return false, err.Error()
	}
	defer os.RemoveAll(dir)
	tf := filepath.Join(dir, "zz_verif_replay_test.go")
	os.WriteFile(tf, []byte(src), 0o644)
	ov := map[string]map[string]string{"Replace": {filepath.Join(repoDir, "zz_verif_replay_test.go"): tf}}
	ob, _ := json.Marshal(ov)
	ovf := filepath.Join(dir, "ov.json")
	os.WriteFile(ovf, ob, 0o644)
	cmd := exec.Command("bash", "-c", "ulimit -v 8000000; cd "+repoDir+" && go test -mod=mod -overlay "+ovf+" -vet=off -timeout 60s -count=1 -run '^TestVerifReplay$' -v . 2>&1 | tail -40")
	cmd.Env = append(os.Environ(), "GOFLAGS=-mod=mod", "GOPROXY=off", "GOSUMDB=off", "GOTOOLCHAIN=local")
	b, _ := cmd.CombinedOutput()
	out = string(b)
	failed = strings.Contains(out, "--- FAIL") || strings.Contains(out, "panic:")
	if !failed && !strings.Contains(out, "--- PASS") {
		out = "REPLAY DID NOT RUN: " + out
	}
	return
}

func (c *Check) replay(r *ObResult) *ReplayRec {
	rec := &ReplayRec{Obligation: r.Ob.Name, Property: c.Prop, Pos: r.Ob.Pos, Status: r.Status, Solver: r.Solver,
		SolverOut: truncate(r.Output, 4000), SMTFile: r.SMTFile, Witness: r.Witness}
	if r.Status == "violated" && r.Ob.Replay != nil {
		src := r.Ob.Replay(r.Witness)
		if src != "" {
			rec.GoTest = src
			rec.Reproduced, rec.ReplayOut = runReplayTest(src)
			rec.ReplayOut = truncate(rec.ReplayOut, 4000)
		}
	}
	if !rec.Reproduced {
		switch r.Status {
		case "violated":
			rec.Note = "solver produced a counterexample for this obligation; no failing input reproduced on the real code (abstract model or no replay template)"
		case "undischarged":
			rec.Note = "obligation not discharged within the time limit (no counterexample): " + firstLine(r.Output)
		case "engine-error":
			rec.Note = "VC generation failed for the current source (outside the verified subset or engine error): " + firstLine(r.Output)
		}
	}
	return rec
}

func truncate(s string, n int) string {
	if len(s) > n {
		return s[:n] + "…"
	}
	return s
}
func firstLine(s string) string {
	if i := strings.Index(s, "\n"); i >= 0 {
		return s[:i]
	}
	return s
}

// ---------- report ----------

// Finish prints the verdict lines, writes evidence and replay files, and returns the exit code.
func (c *Check) Finish() int {
	findings := loadFindings()
	byStatus := map[string]int{}
	bySolver := map[string]int{}
	var solverSecs float64
	var viol []*ObResult
	var known []string
	knownNames := map[string]bool{}
	discharged, claimed, boundedN, maxBound, covers := 0, 0, 0, 0, 0
	var samples []map[string]interface{}
	for _, r := range c.Results {
		byStatus[r.Status]++
		solverSecs += r.Secs
		for _, f := range r.Ob.Funcs {
			c.FUC[f] = true
		}
		switch r.Status {
		case "proved":
			claimed++
			discharged++
			bySolver[r.Solver]++
		case "bounded":
			boundedN++
			if r.Ob.Bounded > maxBound {
				maxBound = r.Ob.Bounded
			}
			bySolver[r.Solver]++
		case "cover-ok":
			covers++
		default:
			if f := matchFinding(findings, c.Prop, r.Ob.Name); f != nil && r.Status != "engine-error" && r.Status != "cover-failed" {
				known = append(known, fmt.Sprintf("KNOWN-FINDING: property=%s %s %s", c.Prop, r.Ob.Name, f.What))
				knownNames[r.Ob.Name] = true
				continue
			}
			claimed++
			viol = append(viol, r)
		}
	}
	// samples: up to three discharged obligations
	n := 0
	for _, r := range c.Results {
		if r.Status == "proved" && r.Solver != "engine-simplifier" && n < 3 {
			s := map[string]interface{}{"obligation": r.Ob.Name, "solver": r.Solver, "smt_bytes": r.SMTBytes, "secs": r.Secs, "position": r.Ob.Pos}
			if n == 0 {
				s["goal"] = truncate(r.Ob.Goal.String(), 1500)
			}
			samples = append(samples, s)
			n++
		}
	}
	if n == 0 {
		for _, r := range c.Results {
			if r.Status == "proved" && n < 3 {
				samples = append(samples, map[string]interface{}{"obligation": r.Ob.Name, "solver": r.Solver, "goal": truncate(r.Ob.Goal.String(), 600)})
				n++
			}
		}
	}
	sort.Strings(known)
	for _, k := range known {
		fmt.Println(k)
	}
	os.MkdirAll(filepath.Join(verifDir, "replays"), 0o755)
	var violLines []string
	for _, r := range viol {
		rec := c.replay(r)
		path := filepath.Join(verifDir, "replays", sanitize(r.Ob.Name)+".json")
		b, _ := json.MarshalIndent(rec, "", " ")
		os.WriteFile(path, b, 0o644)
		line := fmt.Sprintf("VIOLATION property=%s replay=%s obligation=%s status=%s", c.Prop, path, r.Ob.Name, r.Status)
		if !rec.Reproduced {
			line += " no-failing-input-found"
		}
		violLines = append(violLines, line)
	}
	fuc := keys(c.FUC)
	ev := map[string]interface{}{
		"property_id": c.Prop,
		"tier":        c.Tier,
		"seed":        c.Seed,
		"level":       "proof",
		"wall_s":      time.Since(c.Start).Seconds(),
		"violations":  len(viol),
		"assumptions": c.Assume,
		"coverage": map[string]interface{}{
			"obligations":              claimed,
			"discharged":               discharged,
			"checker_cmd":              fmt.Sprintf("govc check %s --tier %s (VCs from go/ssa of %s, solvers z3 4.8.12 / z3-new 5.1.0 / cvc5 1.0, timeout %ds)", c.Prop, c.Tier, repoDir, c.Timeout),
			"trusted_base":             c.Trusted,
			"bounded":                  map[string]int{"count": boundedN, "bound": maxBound},
			"covers_satisfied":         covers,
			"functions_under_contract": fuc,
			"by_solver":                bySolver,
			"by_status":                byStatus,
			"solver_time_s":            solverSecs,
			"known_findings":           keys2(knownNames),
			"samples":                  samples,
			"exhaustive":               c.Exhaustive,
			"notes":                    c.Notes,
		},
	}
	b, _ := json.MarshalIndent(ev, "", " ")
	os.MkdirAll(filepath.Join(verifDir, "evidence"), 0o755)
	os.WriteFile(filepath.Join(verifDir, "evidence", c.Prop+".json"), b, 0o644)
	fmt.Printf("govc %s [%s]: %d obligations claimed, %d proved, %d bounded, %d covers ok, %d known findings, %d failing; %.1fs wall, %.1fs solver\n",
		c.Prop, c.Tier, claimed, discharged, boundedN, covers, len(known), len(viol), time.Since(c.Start).Seconds(), solverSecs)
	// prune work dir: keep failing SMT files and the sampled ones
	keep := map[string]bool{}
	for _, r := range viol {
		keep[filepath.Base(r.SMTFile)] = true
	}
	for _, s := range samples {
		for _, r := range c.Results {
			if r.Ob.Name == s["obligation"] {
				keep[filepath.Base(r.SMTFile)] = true
			}
		}
	}
	if ents, err := os.ReadDir(c.WorkDir); err == nil {
		for _, e := range ents {
			if !keep[e.Name()] {
				os.Remove(filepath.Join(c.WorkDir, e.Name()))
			}
		}
	}
	if len(viol) > 0 {
		for _, l := range violLines {
			fmt.Println(l)
		}
		return 1
	}
	if discharged == 0 {
		fmt.Println("govc: no obligation discharged — vacuous check treated as failure")
		fmt.Printf("VIOLATION property=%s replay=%s no-failing-input-found\n", c.Prop, filepath.Join(verifDir, "replays", "vacuous.json"))
		return 1
	}
	return 0
}

func keys(m map[string]bool) []string {
	var r []string
	for k := range m {
		r = append(r, k)
	}
	sort.Strings(r)
	return r
}
func keys2(m map[string]bool) []string {
	r := keys(m)
	if r == nil {
		return []string{}
	}
	return r
}
