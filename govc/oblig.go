package main

// Obligations, discharge, known findings, replay and evidence.

import (
	"encoding/json"
	"fmt"
	"os"
	"os/exec"
	"path/filepath"
	"regexp"
	"sort"
	"strings"
	"sync"
	"time"
)

type Witness struct {
	Name string
	T    *Term
}

type Obligation struct {
	Name         string
	Group        string  // obligations of one group share Common and are solved incrementally
	Common       []*Term // hypotheses shared by the whole group
	Hyps         []*Term
	Goal         *Term
	Pos          string
	Bounded      int  // >0: generated in bounded mode with this bound
	Timeout      int  // >0: per-query solver timeout override in seconds (hard lemmas)
	ThoroughOnly bool // heavy lemma: discharged in the thorough tier only (listed as deferred in quick evidence)
	Witnesses    []Witness
	// Replay builds a Go test (package activitypub, func TestVerifReplay) from witness values.
	Replay func(w map[string]string) string
	// EngineErr non-empty: VC generation failed (outside subset / engine error)
	EngineErr string
	Funcs     []string // functions under contract exercised
	Notes     []string
	// ExpectSat marks cover/vacuity probes: the query must be satisfiable.
	ExpectSat bool
}

type ObResult struct {
	Ob       *Obligation
	Status   string // proved | bounded | violated | undischarged | engine-error | cover-ok | cover-failed
	Solver   string
	Secs     float64
	Output   string
	Witness  map[string]string
	SMTFile  string
	SMTBytes int
	Replay   *ReplayRec
}

type ReplayRec struct {
	Obligation string            `json:"obligation"`
	Property   string            `json:"property"`
	Pos        string            `json:"source_position,omitempty"`
	Status     string            `json:"status"`
	Solver     string            `json:"solver,omitempty"`
	SolverOut  string            `json:"solver_output,omitempty"`
	SMTFile    string            `json:"smt_file,omitempty"`
	Witness    map[string]string `json:"witness,omitempty"`
	GoTest     string            `json:"go_test,omitempty"`
	Reproduced bool              `json:"reproduced_on_real_code"`
	ReplayOut  string            `json:"replay_output,omitempty"`
	Note       string            `json:"note,omitempty"`
}

type Finding struct {
	Property   string `json:"property"`
	Obligation string `json:"obligation"`
	Status     string `json:"status"` // open | fixed
	Commit     string `json:"commit,omitempty"`
	What       string `json:"what"`
}

type Check struct {
	Prop       string
	Tier       string
	Seed       int64
	Timeout    int
	WorkDir    string
	Obls       []*Obligation
	Results    []*ObResult
	Assume     []string
	Trusted    []string
	FUC        map[string]bool
	Start      time.Time
	Inlined    map[string]bool
	Notes      []string
	NeedTwo    bool
	Exhaustive bool
	replaysRun int
	Deferred   []string
}

var verifDir = "/verif"

func NewCheck(prop, tier string) *Check {
	c := &Check{Prop: prop, Tier: tier, Timeout: 10, FUC: map[string]bool{}, Inlined: map[string]bool{}, Start: time.Now()}
	if tier == "thorough" {
		c.Timeout = 60
		c.NeedTwo = true
	}
	if s := os.Getenv("VERIF_SEED"); s != "" {
		fmt.Sscan(s, &c.Seed)
	}
	c.WorkDir = filepath.Join(verifDir, "work", prop)
	os.RemoveAll(c.WorkDir)
	if old, _ := filepath.Glob(filepath.Join(verifDir, "replays", prop+"_*.json")); old != nil {
		for _, f := range old {
			os.Remove(f)
		}
	}
	os.MkdirAll(c.WorkDir, 0o755)
	return c
}

func (c *Check) Add(o *Obligation) {
	if o.ThoroughOnly && c.Tier != "thorough" {
		c.Deferred = append(c.Deferred, o.Name)
		return
	}
	if f := os.Getenv("GOVC_ONLY"); f != "" && !strings.Contains(o.Name, f) {
		return // debugging aid: restrict the run to matching obligations
	}
	c.Obls = append(c.Obls, o)
}

var nameSan = regexp.MustCompile(`[^A-Za-z0-9_.=+-]+`)

func sanitize(s string) string { return nameSan.ReplaceAllString(s, "_") }

var getValRe = regexp.MustCompile(`\(\|?(w![^\s|()]+)\|?\s+((?:\([^()]*(?:\([^()]*\))?[^()]*\))|[^\s()]+)\)`)

func parseGetValue(out string) map[string]string {
	m := map[string]string{}
	for _, mm := range getValRe.FindAllStringSubmatch(out, -1) {
		v := strings.TrimSpace(mm[2])
		v = strings.ReplaceAll(v, "(- ", "-")
		v = strings.TrimSuffix(v, ")")
		if strings.HasPrefix(v, "(/ ") {
			v = strings.TrimPrefix(v, "(/ ")
		}
		m[strings.TrimPrefix(mm[1], "w!")] = v
	}
	return m
}

type batch struct {
	name   string
	idx    []int // indices into c.Obls
	body   string
	common string // the shared hypotheses alone (vacuity guard)
	bytes  int
}

var (
	commonMu    sync.Mutex
	commonCache = map[string]bool{}
)

// commonSatisfiable: one short query on the shared hypotheses; only a definite unsat counts as vacuous.
func commonSatisfiable(body string) bool {
	commonMu.Lock()
	r, ok := commonCache[body]
	commonMu.Unlock()
	if ok {
		return r
	}
	r = quickSat(body)
	commonMu.Lock()
	commonCache[body] = r
	commonMu.Unlock()
	return r
}

// Run discharges all obligations: obligations of one Group share their Common hypotheses and are
// sent to the solvers as one incremental script (push/pop per goal).
func (c *Check) Run() {
	c.Results = make([]*ObResult, len(c.Obls))
	groups := map[string][]int{}
	var order []string
	for i, o := range c.Obls {
		r := &ObResult{Ob: o}
		c.Results[i] = r
		if o.EngineErr != "" {
			r.Status, r.Output = "engine-error", o.EngineErr
			continue
		}
		q := c.query(o)
		if q == TFalse {
			if o.ExpectSat {
				r.Status, r.Output = "cover-failed", "cover condition is syntactically unsatisfiable"
			} else {
				r.Status, r.Solver = "proved", "engine-simplifier"
				if o.Bounded > 0 {
					r.Status = "bounded"
				}
			}
			continue
		}
		g := o.Group
		if g == "" {
			g = "solo:" + o.Name
		}
		// obligations are batched only with obligations that share the same common hypotheses
		g = fmt.Sprintf("%s|%d", g, And(o.Common...).id)
		if _, ok := groups[g]; !ok {
			order = append(order, g)
		}
		groups[g] = append(groups[g], i)
	}
	// render sequentially (term table is not thread-safe), solve in parallel
	var batches []*batch
	for _, g := range order {
		idx := groups[g]
		const chunk = 120
		for k := 0; k < len(idx); k += chunk {
			end := k + chunk
			if end > len(idx) {
				end = len(idx)
			}
			b := &batch{name: sanitize(strings.SplitN(g, "|", 2)[0]) + "." + sanitize(strings.SplitN(g, "|", 2)[1]), idx: idx[k:end]}
			if k > 0 {
				b.name += fmt.Sprintf(".part%d", k/chunk)
			}
			first := c.Obls[b.idx[0]]
			sc := &Script{Asserts: []*Term{And(first.Common...)}, Comment: []string{"group " + g}}
			for n, i := range b.idx {
				o := c.Obls[i]
				var as []*Term
				if o.ExpectSat {
					as = append(append(as, o.Hyps...), o.Goal)
				} else {
					as = append(append(as, o.Hyps...), Not(o.Goal))
				}
				sc.Goals = append(sc.Goals, GoalPart{Asserts: as, Tag: fmt.Sprintf("%d %s", n, o.Name)})
			}
			var err interface{}
			func() {
				defer func() { err = recover() }()
				b.body = sc.Render(allAxioms)
			}()
			if err != nil || len(b.body) > 24<<20 {
				for _, i := range b.idx {
					c.Results[i].Status = "engine-error"
					c.Results[i].Output = fmt.Sprint("render: ", err, " size=", len(b.body))
				}
				continue
			}
			b.bytes = len(b.body)
			// vacuity guard: the hypotheses shared by the group must be satisfiable
			func() {
				defer func() { recover() }()
				b.common = (&Script{Asserts: []*Term{And(first.Common...)}}).Render(allAxioms)
			}()
			batches = append(batches, b)
		}
	}
	var wg sync.WaitGroup
	sem := make(chan struct{}, 6)
	for _, b := range batches {
		b := b
		wg.Add(1)
		sem <- struct{}{}
		go func() {
			defer wg.Done()
			defer func() { <-sem }()
			to := c.Timeout
			for _, i := range b.idx {
				if c.Obls[i].Timeout > to {
					to = c.Obls[i].Timeout
				}
			}
			br := solveBatch(c.WorkDir, b.name, b.body, len(b.idx), to, c.NeedTwo)
			if b.common != "" && !commonSatisfiable(b.common) {
				for _, i := range b.idx {
					c.Results[i].Status = "engine-error"
					c.Results[i].Output = "vacuous: the hypotheses shared by this group of obligations are unsatisfiable"
				}
				return
			}
			for n, i := range b.idx {
				r := c.Results[i]
				o := r.Ob
				r.Solver, r.Secs, r.SMTBytes = br.Solver[n], br.Secs/float64(len(b.idx)), b.bytes/len(b.idx)
				r.SMTFile = filepath.Join(c.WorkDir, b.name+"."+orStr(br.Solver[n], "z3-new")+".smt2")
				r.Output = br.Status[n]
				switch br.Status[n] {
				case "unsat":
					if o.ExpectSat {
						r.Status = "cover-failed"
					} else if o.Bounded > 0 {
						r.Status = "bounded"
					} else {
						r.Status = "proved"
					}
				case "sat":
					if o.ExpectSat {
						r.Status = "cover-ok"
					} else {
						r.Status = "violated"
					}
				case "error":
					r.Status = "engine-error"
					r.Output = br.Err
				default:
					r.Status = "undischarged"
					r.Output = "solvers answered: " + br.Status[n] + " " + br.Err
					if o.ExpectSat {
						// a cover is refuted only by unsat; no model found within the limit is reported, not failed
						r.Status = "cover-unknown"
					}
				}
			}
		}()
	}
	wg.Wait()
	// optional audit (GOVC_REPLAY_AUDIT=n): the replay templates themselves must pass on a tree where the
	// obligations hold, otherwise a "reproduced on the real code" verdict would mean nothing
	if n := os.Getenv("GOVC_REPLAY_AUDIT"); n != "" {
		limit := 40
		fmt.Sscan(n, &limit)
		seen := map[string]bool{}
		var srcs []string
		var names []string
		for _, o := range c.Obls {
			if o.Replay == nil {
				continue
			}
			var src string
			func() {
				defer func() { recover() }()
				src = o.Replay(map[string]string{})
			}()
			if src == "" || seen[src] {
				continue
			}
			seen[src] = true
			srcs = append(srcs, src)
			names = append(names, o.Name)
		}
		step := 1
		if len(srcs) > limit {
			step = len(srcs) / limit
		}
		bad := 0
		ran := 0
		for i := 0; i < len(srcs); i += step {
			failed, out := runReplayTest(srcs[i])
			ran++
			if failed {
				bad++
				fmt.Fprintf(os.Stderr, "REPLAY-TEMPLATE-FAILS-ON-THIS-TREE %s\n%s\n", names[i], out)
			}
		}
		fmt.Fprintf(os.Stderr, "replay audit: %d distinct templates, %d run, %d failing\n", len(srcs), ran, bad)
	}
	// optional audit (GOVC_VACUITY=1): which proved obligations have hypotheses that cannot hold at all
	if os.Getenv("GOVC_VACUITY") != "" {
		n := 0
		for _, r := range c.Results {
			o := r.Ob
			if (r.Status != "proved" && r.Status != "bounded") || len(o.Hyps) == 0 {
				continue
			}
			var body string
			func() {
				defer func() { recover() }()
				body = (&Script{Asserts: append(append([]*Term{}, o.Common...), o.Hyps...)}).Render(allAxioms)
			}()
			if body != "" && !quickSat(body) {
				n++
				fmt.Fprintln(os.Stderr, "VACUOUS-HYPS", o.Name)
			}
		}
		fmt.Fprintln(os.Stderr, "vacuity audit:", n, "obligations with unsatisfiable hypotheses")
	}
	// second pass: witness values for violated obligations (single-goal queries with get-value)
	type wjob struct {
		r    *ObResult
		body string
		tail string
	}
	var jobs []wjob
	for _, r := range c.Results {
		if r.Status != "violated" || len(r.Ob.Witnesses) == 0 || len(jobs) >= 40 {
			continue
		}
		o := r.Ob
		sc := &Script{Asserts: []*Term{c.query(o)}, Comment: []string{"witness query for " + o.Name}}
		var wn []string
		for _, w := range o.Witnesses {
			wv := Var("w!"+w.Name, w.T.S)
			sc.Asserts = append(sc.Asserts, Eq(wv, w.T))
			wn = append(wn, smtSym("w!"+w.Name))
		}
		var body string
		func() {
			defer func() { recover() }()
			body = sc.Render(allAxioms)
		}()
		if body != "" {
			jobs = append(jobs, wjob{r, body, "(get-value (" + strings.Join(wn, " ") + "))\n"})
		}
	}
	for _, j := range jobs {
		j := j
		wg.Add(1)
		sem <- struct{}{}
		go func() {
			defer wg.Done()
			defer func() { <-sem }()
			sr := solveWithTail(c.WorkDir, sanitize(j.r.Ob.Name)+".witness", j.body, j.tail, c.Timeout, false)
			if sr.Status == "sat" {
				j.r.Witness = parseGetValue(sr.Output)
				j.r.SMTFile = filepath.Join(c.WorkDir, sanitize(j.r.Ob.Name)+".witness."+sr.Solver+".smt2")
				j.r.Output = truncate(sr.Output, 3000)
			}
		}()
	}
	wg.Wait()
}

func orStr(a, b string) string {
	if a != "" {
		return a
	}
	return b
}

func (c *Check) query(o *Obligation) *Term {
	hyp := And(append(append([]*Term(nil), o.Common...), o.Hyps...)...)
	if o.ExpectSat {
		return And(hyp, o.Goal)
	}
	return And(hyp, Not(o.Goal))
}

// ---------- known findings ----------

func loadFindings() []Finding {
	var f struct {
		Findings []Finding `json:"findings"`
	}
	b, err := os.ReadFile(filepath.Join(verifDir, "known_findings.json"))
	if err != nil {
		return nil
	}
	if err := json.Unmarshal(b, &f); err != nil {
		fmt.Fprintln(os.Stderr, "govc: known_findings.json unreadable:", err)
		return nil
	}
	return f.Findings
}

func matchFinding(fs []Finding, prop, ob string) *Finding {
	for i := range fs {
		f := &fs[i]
		if f.Property != prop || f.Status != "open" {
			continue
		}
		if f.Obligation == ob {
			return f
		}
		if strings.HasSuffix(f.Obligation, "*") && strings.HasPrefix(ob, strings.TrimSuffix(f.Obligation, "*")) {
			return f
		}
	}
	return nil
}

// ---------- replay ----------

func runReplayTest(src string) (failed bool, out string) {
	dir, err := os.MkdirTemp("", "govc-replay-")
	if err != nil {
		return false, err.Error()
	}
	defer os.RemoveAll(dir)
	tf := filepath.Join(dir, "zz_verif_replay_test.go")
	os.WriteFile(tf, []byte(src), 0o644)
	ov := map[string]map[string]string{"Replace": {filepath.Join(repoDir, "zz_verif_replay_test.go"): tf}}
	ob, _ := json.Marshal(ov)
	ovf := filepath.Join(dir, "ov.json")
	os.WriteFile(ovf, ob, 0o644)
	cmd := exec.Command("bash", "-c", "ulimit -v 8000000; cd "+repoDir+" && go test -mod=mod -overlay "+ovf+" -vet=off -timeout 60s -count=1 -run '^TestVerifReplay$' -v . 2>&1 | tail -40")
	cmd.Env = append(os.Environ(), "GOFLAGS=-mod=mod", "GOPROXY=off", "GOSUMDB=off", "GOTOOLCHAIN=local")
	b, _ := cmd.CombinedOutput()
	out = string(b)
	failed = strings.Contains(out, "--- FAIL") || strings.Contains(out, "panic:")
	if !failed && !strings.Contains(out, "--- PASS") {
		out = "REPLAY DID NOT RUN: " + out
	}
	return
}

func (c *Check) replay(r *ObResult) *ReplayRec {
	rec := &ReplayRec{Obligation: r.Ob.Name, Property: c.Prop, Pos: r.Ob.Pos, Status: r.Status, Solver: r.Solver,
		SolverOut: truncate(r.Output, 4000), SMTFile: r.SMTFile, Witness: r.Witness}
	c.replaysRun++
	if c.replaysRun > 16 {
		rec.Note = "replay not run: more than 16 failing obligations in this check (replay the stored obligation with `govc replay` after fixing the first ones)"
		return rec
	}
	if (r.Status == "violated" || r.Status == "undischarged" || r.Status == "engine-error") && r.Ob.Replay != nil {
		src := r.Ob.Replay(r.Witness)
		if src != "" {
			rec.GoTest = src
			rec.Reproduced, rec.ReplayOut = runReplayTest(src)
			rec.ReplayOut = truncate(rec.ReplayOut, 4000)
		}
	}
	if !rec.Reproduced {
		switch r.Status {
		case "violated":
			rec.Note = "solver produced a counterexample for this obligation; no failing input reproduced on the real code (abstract model or no replay template)"
		case "undischarged":
			rec.Note = "obligation not discharged within the time limit (no counterexample): " + firstLine(r.Output)
		case "engine-error":
			rec.Note = "VC generation failed for the current source (outside the verified subset or engine error): " + firstLine(r.Output)
		}
	}
	return rec
}

func truncate(s string, n int) string {
	if len(s) > n {
		return s[:n] + "…"
	}
	return s
}
func firstLine(s string) string {
	if i := strings.Index(s, "\n"); i >= 0 {
		return s[:i]
	}
	return s
}

// ---------- report ----------

// Finish prints the verdict lines, writes evidence and replay files, and returns the exit code.
func (c *Check) Finish() int {
	findings := loadFindings()
	byStatus := map[string]int{}
	bySolver := map[string]int{}
	var solverSecs float64
	var viol []*ObResult
	var known []string
	knownNames := map[string]bool{}
	knownSeen := map[string]bool{}
	discharged, claimed, boundedN, maxBound, covers, coverUnknown := 0, 0, 0, 0, 0, 0
	var samples []map[string]interface{}
	for _, r := range c.Results {
		byStatus[r.Status]++
		solverSecs += r.Secs
		for _, f := range r.Ob.Funcs {
			c.FUC[f] = true
		}
		switch r.Status {
		case "proved":
			claimed++
			discharged++
			bySolver[r.Solver]++
		case "bounded":
			boundedN++
			if r.Ob.Bounded > maxBound {
				maxBound = r.Ob.Bounded
			}
			bySolver[r.Solver]++
		case "cover-ok":
			covers++
		case "cover-unknown":
			coverUnknown++
		default:
			if f := matchFinding(findings, c.Prop, r.Ob.Name); f != nil && r.Status != "engine-error" && r.Status != "cover-failed" {
				if !knownSeen[f.Obligation] {
					knownSeen[f.Obligation] = true
					known = append(known, fmt.Sprintf("KNOWN-FINDING: property=%s %s %s", c.Prop, f.Obligation, f.What))
				}
				knownNames[r.Ob.Name] = true
				continue
			}
			claimed++
			viol = append(viol, r)
		}
	}
	// samples: up to three discharged obligations
	n := 0
	for _, r := range c.Results {
		if r.Status == "proved" && r.Solver != "engine-simplifier" && n < 3 {
			s := map[string]interface{}{"obligation": r.Ob.Name, "solver": r.Solver, "smt_bytes": r.SMTBytes, "secs": r.Secs, "position": r.Ob.Pos}
			if n == 0 {
				s["goal"] = truncate(r.Ob.Goal.String(), 1500)
			}
			samples = append(samples, s)
			n++
		}
	}
	if n == 0 {
		for _, r := range c.Results {
			if r.Status == "proved" && n < 3 {
				samples = append(samples, map[string]interface{}{"obligation": r.Ob.Name, "solver": r.Solver, "goal": truncate(r.Ob.Goal.String(), 600)})
				n++
			}
		}
	}
	sort.Strings(known)
	for _, k := range known {
		fmt.Println(k)
	}
	os.MkdirAll(filepath.Join(verifDir, "replays"), 0o755)
	var violLines []string
	for _, r := range viol {
		rec := c.replay(r)
		path := filepath.Join(verifDir, "replays", sanitize(r.Ob.Name)+".json")
		b, _ := json.MarshalIndent(rec, "", " ")
		os.WriteFile(path, b, 0o644)
		line := fmt.Sprintf("VIOLATION property=%s replay=%s obligation=%s status=%s", c.Prop, path, r.Ob.Name, r.Status)
		if !rec.Reproduced {
			line += " no-failing-input-found"
		}
		violLines = append(violLines, line)
	}
	fuc := keys(c.FUC)
	ev := map[string]interface{}{
		"property_id": c.Prop,
		"tier":        c.Tier,
		"seed":        c.Seed,
		"level":       "proof",
		"wall_s":      time.Since(c.Start).Seconds(),
		"violations":  len(viol),
		"assumptions": append([]string{}, c.Assume...),
		"coverage": map[string]interface{}{
			"obligations":              claimed,
			"discharged":               discharged,
			"checker_cmd":              fmt.Sprintf("govc check %s --tier %s (VCs from go/ssa of %s, solvers z3 4.8.12 / z3-new 5.1.0 / cvc5 1.0, timeout %ds)", c.Prop, c.Tier, repoDir, c.Timeout),
			"trusted_base":             c.Trusted,
			"bounded":                  map[string]int{"count": boundedN, "bound": maxBound},
			"covers_satisfied":         covers,
			"covers_undecided":         coverUnknown,
			"functions_under_contract": fuc,
			"by_solver":                bySolver,
			"by_status":                byStatus,
			"solver_time_s":            solverSecs,
			"known_findings":           keys2(knownNames),
			"samples":                  samples,
			"exhaustive":               c.Exhaustive,
			"notes":                    c.Notes,
			"deferred_to_thorough":     c.Deferred,
		},
	}
	b, _ := json.MarshalIndent(ev, "", " ")
	os.MkdirAll(filepath.Join(verifDir, "evidence"), 0o755)
	os.WriteFile(filepath.Join(verifDir, "evidence", c.Prop+".json"), b, 0o644)
	fmt.Printf("govc %s [%s]: %d obligations claimed, %d proved, %d bounded, %d covers ok, %d obligations under known findings, %d failing; %.1fs wall, %.1fs solver\n",
		c.Prop, c.Tier, claimed, discharged, boundedN, covers, len(knownNames), len(viol), time.Since(c.Start).Seconds(), solverSecs)
	// prune work dir: keep failing SMT files and the sampled ones
	keep := map[string]bool{}
	for _, r := range viol {
		keep[filepath.Base(r.SMTFile)] = true
	}
	for _, s := range samples {
		for _, r := range c.Results {
			if r.Ob.Name == s["obligation"] {
				keep[filepath.Base(r.SMTFile)] = true
			}
		}
	}
	if ents, err := os.ReadDir(c.WorkDir); err == nil {
		for _, e := range ents {
			if !keep[e.Name()] {
				os.Remove(filepath.Join(c.WorkDir, e.Name()))
			}
		}
	}
	if len(viol) > 0 {
		for _, l := range violLines {
			fmt.Println(l)
		}
		return 1
	}
	if discharged == 0 {
		fmt.Println("govc: no obligation discharged — vacuous check treated as failure")
		fmt.Printf("VIOLATION property=%s replay=%s no-failing-input-found\n", c.Prop, filepath.Join(verifDir, "replays", "vacuous.json"))
		return 1
	}
	return 0
}

func keys(m map[string]bool) []string {
	var r []string
	for k := range m {
		r = append(r, k)
	}
	sort.Strings(r)
	return r
}
func keys2(m map[string]bool) []string {
	r := keys(m)
	if r == nil {
		return []string{}
	}
	return r
}
