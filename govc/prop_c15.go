package main

import (
	"fmt"
	"go/types"
	"os"

	"golang.org/x/tools/go/ssa"
)

func init() {
	drivers["C15"] = checkC15
	externals["filepath.Split"] = func(ex *Exec, st *State, a []Value, x *ssa.Call) Value {
		s := a[0].(*Term)
		return &TupleVal{V: []Value{App("filepath.Split.dir", SStr, s), App("filepath.Split.file", SStr, s)}}
	}
	externals["strings.TrimRight"] = func(ex *Exec, st *State, a []Value, x *ssa.Call) Value {
		return App("strings.TrimRight", SStr, a[0].(*Term), a[1].(*Term))
	}
	externals["strings.Trim"] = func(ex *Exec, st *State, a []Value, x *ssa.Call) Value {
		return App("strings.Trim", SStr, a[0].(*Term), a[1].(*Term))
	}
	externals["errors.Newf"] = func(ex *Exec, st *State, a []Value, x *ssa.Call) Value {
		return freshErr(ex, "errors.Newf")
	}
}

var c15Names = []string{"outbox", "inbox", "liked", "following", "followers", "likes", "shares", "replies"}

func foldIn(t *Term, names []string) *Term {
	var cs []*Term
	for _, n := range names {
		cs = append(cs, EqFold(t, StrLit(n)))
	}
	return Or(cs...)
}

func checkC15(w *World, c *Check) {
	c.Trusted = append(c.Trusted,
		"net/url.Parse, (*URL).String, path/filepath.Split and strings.TrimRight are deterministic total functions of their arguments (uninterpreted); strings.EqualFold is equality of a folding normal form; strings.Builder appends",
		"IRI.AddPath(name) is used as an uninterpreted function of the IRI and the name in the helper-selection obligations (its own string shape involves filepath.Join/Clean)",
		"IsNil, IsObject, IsItemCollection by their contracts (C20/C09); C08 views; go/types + go/ssa; SMT solvers' unsat answers")
	c.Assume = append(c.Assume,
		"DECIDED: the exact string IRIf builds; which names the validity predicates accept; that ValidCollectionIRI is the validity of what Split returns; what Split/OfActor return in terms of filepath.Split's two results and the name lists; which value CollectionPath.IRI / Of select for objects and actors (the explicitly set property, else the IRI built from the id)",
		"NOT DECIDED: that splitting a built IRI returns the owner and the name (the round trip itself), and that a built IRI is recognised as valid: both need the concrete string semantics of net/url and path/filepath on real URL text (escaping, trailing slashes, dot segments); see DESIGN.md 14.5")
	// ---- IRIf builds owner + optional slash + name ----
	guard(c, "C15/IRIf", func() {
		ex := w.NewExec()
		st := newState()
		i, t := Var("i", SStr), Var("t", SStr)
		fn := w.Func("IRIf")
		res := ex.Call(st, fn, []Value{i, t}, nil).(*Term)
		if os.Getenv("GOVC_DEBUG") != "" {
			fmt.Fprintln(os.Stderr, "IRIf =", res)
		}
		needSlash := Or(Eq(SLen(i), IntLit(0)), Neq(App("sat", SInt, i, Sub(SLen(i), IntLit(1))), IntLit('/')))
		with := B2S(BCat(BCat(S2B(i), App("rune2bytes", SBytes, IntLit('/'))), S2B(t)))
		without := B2S(BCat(S2B(i), S2B(t)))
		common := append([]*Term{ex.NoPanic()}, ex.assumes...)
		c.Add(&Obligation{Name: "C15/IRIf/appends-slash-and-name", Group: "C15/IRIf", Common: common, Hyps: []*Term{needSlash}, Goal: Eq(res, with), Pos: ex.pos(fn.Pos()), Funcs: []string{"IRIf"}, Replay: c15Replay})
		c.Add(&Obligation{Name: "C15/IRIf/keeps-trailing-slash", Group: "C15/IRIf", Common: common, Hyps: []*Term{Not(needSlash)}, Goal: Eq(res, without), Pos: ex.pos(fn.Pos()), Funcs: []string{"IRIf"}, Replay: c15Replay})
		for k, p := range ex.panics {
			c.Add(&Obligation{Name: fmt.Sprintf("C15/IRIf/nopanic/%s#%d", p.Kind, k), Group: "C15/IRIf", Common: ex.assumes, Goal: Not(p.C), Pos: p.Pos, Funcs: []string{"IRIf"}})
		}
	})
	// ---- validity predicates ----
	for _, v := range []struct {
		fn    string
		names []string
	}{{"ValidCollection", c15Names}, {"ValidActivityCollection", []string{"outbox", "inbox", "likes", "shares", "replies"}}, {"ValidObjectCollection", []string{"following", "followers", "liked"}}} {
		v := v
		guard(c, "C15/"+v.fn, func() {
			ex := w.NewExec()
			st := newState()
			t := Var("t", SStr)
			fn := w.Func(v.fn)
			res := ex.Call(st, fn, []Value{t}, nil).(*Term)
			common := append([]*Term{ex.NoPanic()}, ex.assumes...)
			c.Add(&Obligation{Name: "C15/" + v.fn + "/accepts-exactly-the-names", Group: "C15/" + v.fn, Common: common, Goal: Iff(res, foldIn(t, v.names)), Pos: ex.pos(fn.Pos()), Funcs: []string{v.fn}, Replay: c15Replay})
		})
	}
	guard(c, "C15/ValidCollectionIRI", func() {
		ex := w.NewExec()
		st := newState()
		var col *Term
		ex.hooks["Split"] = func(ex *Exec, st *State, f *ssa.Function, a []Value) (Value, bool) {
			col = Var("split.col", SStr)
			return &TupleVal{V: []Value{Var("split.owner", SStr), col}}, true
		}
		fn := w.Func("ValidCollectionIRI")
		res := ex.Call(st, fn, []Value{Var("i", SStr)}, nil).(*Term)
		common := append([]*Term{ex.NoPanic()}, ex.assumes...)
		if col == nil {
			c.Add(&Obligation{Name: "C15/ValidCollectionIRI/uses-Split", Goal: TFalse, Pos: ex.pos(fn.Pos()), Funcs: []string{"ValidCollectionIRI"}})
			return
		}
		c.Add(&Obligation{Name: "C15/ValidCollectionIRI/is-validity-of-the-split-name", Group: "C15/ValidCollectionIRI", Common: common, Goal: Iff(res, foldIn(col, c15Names)), Pos: ex.pos(fn.Pos()), Funcs: []string{"ValidCollectionIRI"}, Replay: c15Replay})
	})
	// ---- Split: on a parsable IRI the name is the last segment of the decoded URL path when it is a collection name ----
	guard(c, "C15/Split", func() {
		ex := w.NewExec()
		st := newState()
		i := Var("i", SStr)
		fn := w.Func("Split")
		r := ex.Call(st, fn, []Value{i}, nil).(*TupleVal)
		owner, col := r.V[0].(*Term), r.V[1].(*Term)
		okURL := And(Neq(i, StrLit("")), Eq(App("urlParseErr", SErr, i), ErrNil)) // IRI.URL() refuses the empty IRI
		p := urlComp(i, "Path", SStr)
		dir, file := App("filepath.Split.dir", SStr, p), App("filepath.Split.file", SStr, p)
		common := append([]*Term{ex.NoPanic()}, ex.assumes...)
		pos := ex.pos(fn.Pos())
		fns := []string{"Split", "(CollectionPaths).Split"}
		c.Add(&Obligation{Name: "C15/Split/url/name-is-the-last-path-segment-when-known", Group: "C15/Split", Common: common, Hyps: []*Term{okURL, Gt(SLen(dir), IntLit(0)), foldIn(file, c15Names)},
			Goal: Eq(col, file), Pos: pos, Funcs: fns, Replay: c15Replay})
		c.Add(&Obligation{Name: "C15/Split/url/unknown-segment-gives-no-name", Group: "C15/Split", Common: common, Hyps: []*Term{okURL, Gt(SLen(dir), IntLit(0)), Not(foldIn(file, c15Names))},
			Goal: Eq(col, StrLit("")), Pos: pos, Funcs: fns, Replay: c15Replay})
		c.Add(&Obligation{Name: "C15/Split/url/no-directory-gives-the-iri-back", Group: "C15/Split", Common: common, Hyps: []*Term{okURL, Eq(SLen(dir), IntLit(0))},
			Goal: And(Eq(col, StrLit("")), Eq(owner, i)), Pos: pos, Funcs: fns, Replay: c15Replay})
		// not a URL: the raw string is split
		d2, f2 := App("filepath.Split.dir", SStr, i), App("filepath.Split.file", SStr, i)
		c.Add(&Obligation{Name: "C15/Split/raw/known-name", Group: "C15/Split", Common: common, Hyps: []*Term{Not(okURL), Gt(SLen(d2), IntLit(0)), foldIn(f2, c15Names)},
			Goal: And(Eq(col, f2), Eq(owner, App("strings.TrimRight", SStr, d2, StrLit("/")))), Pos: pos, Funcs: fns, Replay: c15Replay})
		c.Add(&Obligation{Name: "C15/Split/raw/otherwise-the-iri-back", Group: "C15/Split", Common: common, Hyps: []*Term{Not(okURL), Or(Eq(SLen(d2), IntLit(0)), Not(foldIn(f2, c15Names)))},
			Goal: And(Eq(col, StrLit("")), Eq(owner, i)), Pos: pos, Funcs: fns, Replay: c15Replay})
		for k, pn := range ex.panics {
			c.Add(&Obligation{Name: fmt.Sprintf("C15/Split/nopanic/%s#%d", pn.Kind, k), Group: "C15/Split", Common: ex.assumes, Goal: Not(pn.C), Pos: pn.Pos, Funcs: fns})
		}
	})
	// ---- OfActor: the name must be the last segment ----
	guard(c, "C15/OfActor", func() {
		ex := w.NewExec()
		st := newState()
		t, i := Var("t", SStr), Var("i", SStr)
		fn := w.Method("CollectionPath", "OfActor")
		r := ex.Call(st, fn, []Value{t, i}, nil).(*TupleVal)
		owner, err := r.V[0].(*Term), r.V[1].(*Term)
		dir, file := App("filepath.Split.dir", SStr, i), App("filepath.Split.file", SStr, i)
		common := append([]*Term{ex.NoPanic()}, ex.assumes...)
		match := EqFold(file, t)
		c.Add(&Obligation{Name: "C15/OfActor/accepts-iff-last-segment-is-the-name", Group: "C15/OfActor", Common: common, Goal: Iff(Eq(err, ErrNil), match), Pos: ex.pos(fn.Pos()), Funcs: []string{"(CollectionPath).OfActor"}, Replay: c15Replay})
		c.Add(&Obligation{Name: "C15/OfActor/owner-is-the-trimmed-directory", Group: "C15/OfActor", Common: common, Hyps: []*Term{match}, Goal: Eq(owner, App("strings.TrimRight", SStr, dir, StrLit("/"))), Pos: ex.pos(fn.Pos()), Funcs: []string{"(CollectionPath).OfActor"}, Replay: c15Replay})
	})
	// ---- helper selection: explicit property when set, built IRI otherwise ----
	sel := []struct {
		typ, path, field, goType string
	}{
		{"*Object", "likes", "Likes", "Object"}, {"*Object", "shares", "Shares", "Object"}, {"*Object", "replies", "Replies", "Object"},
		{"*Actor", "inbox", "Inbox", "Actor"}, {"*Actor", "outbox", "Outbox", "Actor"}, {"*Actor", "liked", "Liked", "Actor"}, {"*Actor", "following", "Following", "Actor"}, {"*Actor", "followers", "Followers", "Actor"},
		{"*Actor", "likes", "Likes", "Actor"}, {"*Actor", "shares", "Shares", "Actor"}, {"*Actor", "replies", "Replies", "Actor"},
	}
	for _, s := range sel {
		s := s
		grp := fmt.Sprintf("C15/IRI-of/%s/%s", s.typ, s.path)
		guard(c, grp, func() {
			ex := w.NewExec()
			installIsNilSpecHook(ex)
			ex.hooks["(IRI).AddPath"] = func(ex *Exec, st *State, f *ssa.Function, a []Value) (Value, bool) {
				el := a[1].(*SliceVal)
				n, _ := sliceLen(el).IntVal()
				args := []*Term{a[0].(*Term)}
				for k := int64(0); k < n; k++ {
					args = append(args, ex.readElem(st, el, IntLit(k)).(*Term))
				}
				return App("iri.AddPath", SStr, args...), true
			}
			st := newState()
			T := w.Type(s.typ)
			S := w.Type(s.goType)
			iv, _, sv := ex.symItemOfType(T, "x")
			fn := w.Method("CollectionPath", "IRI")
			res := ex.Call(st, fn, []Value{StrLit(s.path), iv}, nil).(*Term)
			explicit := sv.F[fieldIndex(S, s.field)].(*IfaceVal)
			id := sv.F[fieldIndex(S, "ID")].(*Term)
			typ := sv.F[fieldIndex(S, "Type")].(*Term)
			common := append([]*Term{ex.NoPanic()}, ex.assumes...)
			if s.goType == "Actor" {
				common = append(common, Eq(typ, StrLit("Person")))
			} else {
				common = append(common, Eq(typ, StrLit("Note")))
			}
			common = append(common, Gt(SLen(id), IntLit(0)), Neq(Fold(id), StrLit("-")))
			built := App("iri.AddPath", SStr, id, StrLit(s.path))
			common = append(common, Gt(SLen(built), IntLit(0)), Neq(Fold(built), StrLit("-"))) // a built IRI is never the nil-like placeholder
			isSet := Not(ex.ifaceEq(explicit, &IfaceVal{Alts: []IfaceAlt{{C: TTrue}}}))
			link := App("m.GetLink", SStr, ex.abstractItem(explicit))
			c.Add(&Obligation{Name: grp + "/explicit-property-wins", Group: grp, Common: common, Hyps: []*Term{isSet, Not(ex.isNilSpec(explicit))}, Goal: Eq(res, link), Pos: ex.pos(fn.Pos()), Funcs: []string{"(CollectionPath).IRI", "(CollectionPath).Of"}, Replay: c15Replay})
			c.Add(&Obligation{Name: grp + "/built-from-the-id-otherwise", Group: grp, Common: common, Hyps: []*Term{Not(isSet)}, Goal: Eq(res, App("iri.AddPath", SStr, id, StrLit(s.path))), Pos: ex.pos(fn.Pos()), Funcs: []string{"(CollectionPath).IRI", "(CollectionPath).Of"}, Replay: c15Replay})
			for k, p := range ex.panics {
				c.Add(&Obligation{Name: fmt.Sprintf("%s/nopanic/%s#%d", grp, p.Kind, k), Group: grp + "/nopanic", Common: ex.assumes, Goal: Not(p.C), Pos: p.Pos, Funcs: []string{"(CollectionPath).IRI"}})
			}
		})
	}
	_ = types.Typ
}

func c15Replay(map[string]string) string {
	return `package activitypub

import "testing"

func TestVerifReplay(t *testing.T) {
	names := []CollectionPath{Outbox, Inbox, Liked, Following, Followers, Likes, Shares, Replies}
	owners := []IRI{"https://example.com", "https://example.com/", "https://example.com/users/alice", "https://example.com:8443/a/b/", "https://example.com/inbox", "https://example.com/users/likes/bob", "https://example.com/users/a%20b"}
	for _, o := range owners {
		for _, n := range names {
			built := IRIf(o, n)
			want := string(o)
			if want[len(want)-1] != '/' {
				want += "/"
			}
			want += string(n)
			if string(built) != want {
				t.Errorf("IRIf(%q, %q) = %q, want %q", o, n, built, want)
			}
			owner, col := Split(built)
			if col != n {
				t.Errorf("Split(%q) names %q, want %q", built, col, n)
			}
			if !owner.Equals(o, true) {
				t.Errorf("Split(%q) owner %q, want one equivalent to %q", built, owner, o)
			}
			if !ValidCollectionIRI(built) {
				t.Errorf("%q is not recognised as a collection IRI", built)
			}
			if back, err := n.OfActor(built); err != nil || !back.Equals(o, true) {
				t.Errorf("%q.OfActor(%q) = %q, %v", n, built, back, err)
			}
		}
		for _, n := range names {
			for _, v := range []CollectionPath{n, CollectionPath(string(n[0]-32) + string(n[1:]))} {
				if !ValidCollection(v) {
					t.Errorf("ValidCollection(%q) is false", v)
				}
			}
		}
	}
	for _, bad := range []CollectionPath{"", "inboxx", "object", "items"} {
		if ValidCollection(bad) {
			t.Errorf("ValidCollection(%q) is true", bad)
		}
	}
	for _, n := range []CollectionPath{Following, Followers, Liked} {
		if !ValidObjectCollection(n) || !ValidCollection(n) {
			t.Errorf("%q must be a valid (object) collection", n)
		}
	}
	ob := &Object{ID: "https://example.com/o", Type: NoteType, Likes: IRI("https://other.example/custom-likes")}
	if got := Likes.IRI(ob); got != "https://other.example/custom-likes" {
		t.Errorf("Likes.IRI ignores the explicit property: %q", got)
	}
	if got := Shares.IRI(ob); got != "https://example.com/o/shares" {
		t.Errorf("Shares.IRI built %q", got)
	}
	act := &Actor{ID: "https://example.com/a", Type: PersonType, Inbox: IRI("https://other.example/in")}
	if got := Inbox.IRI(act); got != "https://other.example/in" {
		t.Errorf("Inbox.IRI ignores the explicit property: %q", got)
	}
	if got := Outbox.IRI(act); got != "https://example.com/a/outbox" {
		t.Errorf("Outbox.IRI built %q", got)
	}
}
`
}
