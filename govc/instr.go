package main

import (
	"fmt"
	"go/token"
	"go/types"

	"golang.org/x/tools/go/ssa"
)

func (ex *Exec) execInstr(fr *frame, st *State, ins ssa.Instruction) {
	switch x := ins.(type) {
	case *ssa.DebugRef:
	case *ssa.Alloc:
		el := x.Type().(*types.Pointer).Elem()
		o := ex.newObj(fmt.Sprintf("%s@%s", x.Comment, ex.pos(x.Pos())), OCell, el)
		o.fresh = true
		st.heap[o] = ex.zeroValue(el)
		st.env[x] = &PtrVal{Alts: []PtrAlt{{C: TTrue, O: o}}}
	case *ssa.Store:
		if _, opaque := ex.operand(st, x.Addr).(*Term); opaque {
			// store through a pointer into another package's value (e.g. a *url.URL the callee just built)
			ex.note("store into a value of another package through an opaque pointer is not tracked")
			break
		}
		p := ex.operand(st, x.Addr).(*PtrVal)
		ex.store(st, p, ex.operand(st, x.Val), x.Pos())
	case *ssa.UnOp:
		st.env[x] = ex.unop(st, x)
	case *ssa.BinOp:
		st.env[x] = ex.binop(st, x.Op, ex.operand(st, x.X), ex.operand(st, x.Y), x.X.Type(), x.Pos())
	case *ssa.FieldAddr:
		if t, ok := ex.operand(st, x.X).(*Term); ok {
			// field of a struct from another package behind an opaque pointer
			fname := x.X.Type().Underlying().(*types.Pointer).Elem().Underlying().(*types.Struct).Field(x.Field).Name()
			st.env[x] = App("fieldaddr."+string(t.S)+"."+fname, Sort("O_ref"), t)
			break
		}
		p := ex.operand(st, x.X).(*PtrVal)
		r := &PtrVal{}
		for _, al := range p.Alts {
			if al.O == nil {
				ex.panicIf(st, al.C, "nil-deref", x.Pos())
				continue
			}
			path := append(append([]PathElem(nil), al.Path...), PathElem{Field: x.Field})
			r.Alts = append(r.Alts, PtrAlt{C: al.C, O: al.O, Path: path})
		}
		if len(r.Alts) == 0 {
			st.pc = TFalse
			r.Alts = []PtrAlt{{C: TTrue}}
		}
		st.env[x] = r
	case *ssa.Field:
		sv := ex.operand(st, x.X).(*StructVal)
		st.env[x] = sv.F[x.Field]
	case *ssa.IndexAddr:
		st.env[x] = ex.indexAddr(st, x)
	case *ssa.Index:
		st.env[x] = ex.index(st, x)
	case *ssa.Extract:
		st.env[x] = ex.operand(st, x.Tuple).(*TupleVal).V[x.Index]
	case *ssa.ChangeType:
		st.env[x] = ex.changeType(ex.operand(st, x.X), x.Type())
	case *ssa.ChangeInterface:
		st.env[x] = ex.operand(st, x.X)
	case *ssa.MakeInterface:
		st.env[x] = ex.makeInterface(ex.operand(st, x.X), x.X.Type(), x.Type())
	case *ssa.Convert:
		st.env[x] = ex.convert(st, ex.operand(st, x.X), x.X.Type(), x.Type(), x.Pos())
	case *ssa.TypeAssert:
		st.env[x] = ex.typeAssert(st, x)
	case *ssa.MakeClosure:
		var bind []Value
		for _, b := range x.Bindings {
			bind = append(bind, ex.operand(st, b))
		}
		st.env[x] = &FuncVal{Alts: []FuncAlt{{C: TTrue, Fn: x.Fn.(*ssa.Function), Bind: bind}}}
	case *ssa.MakeSlice:
		st.env[x] = ex.makeSlice(st, x)
	case *ssa.Slice:
		st.env[x] = ex.sliceOp(st, x)
	case *ssa.MakeMap:
		m := x.Type().Underlying().(*types.Map)
		o := ex.newObj("map@"+ex.pos(x.Pos()), OCell, x.Type())
		o.fresh = true
		st.heap[o] = &MapContent{}
		st.env[x] = &MapVal{K: m.Key(), V: m.Elem(), Alts: []MapAlt{{C: TTrue, O: o}}}
	case *ssa.MapUpdate:
		ex.mapUpdate(st, x)
	case *ssa.Lookup:
		st.env[x] = ex.lookup(st, x)
	case *ssa.Call:
		st.env[x] = ex.call(fr, st, x)
	case *ssa.RunDefers:
	case *ssa.Range:
		st.env[x] = ex.rangeInit(st, x)
	case *ssa.Next:
		st.env[x] = ex.rangeNext(st, x)
	default:
		panic(unsupported(fmt.Sprintf("instruction %T (%s) at %s", ins, ins, ex.pos(ins.Pos()))))
	}
}

func (ex *Exec) changeType(v Value, t types.Type) Value {
	switch x := v.(type) {
	case *StructVal:
		return &StructVal{T: t, F: x.F}
	}
	return v
}

func (ex *Exec) unop(st *State, x *ssa.UnOp) Value {
	v := ex.operand(st, x.X)
	switch x.Op {
	case token.MUL:
		if t, ok := v.(*Term); ok {
			// deref of opaque external pointer
			return ex.symValue(x.Type(), ufNamer("deref."+string(t.S), t), false)
		}
		return ex.load(st, v.(*PtrVal), x.Type(), x.Pos())
	case token.NOT:
		return Not(v.(*Term))
	case token.SUB:
		t := v.(*Term)
		if t.S == SReal {
			return mk("-", "", SReal, mk("real", "0.0", SReal), t)
		}
		return Sub(IntLit(0), t)
	}
	panic(unsupported("unop " + x.Op.String()))
}

func (ex *Exec) binop(st *State, op token.Token, a, b Value, t types.Type, pos token.Pos) Value {
	switch op {
	case token.EQL:
		return ex.equal(a, b, t)
	case token.NEQ:
		return Not(ex.equal(a, b, t))
	}
	x, ok1 := a.(*Term)
	y, ok2 := b.(*Term)
	if !ok1 || !ok2 {
		panic(unsupported(fmt.Sprintf("binop %s on %T,%T", op, a, b)))
	}
	if x.S == SStr {
		switch op {
		case token.ADD:
			return SCat(x, y)
		case token.LSS:
			return App("strlt", SBool, x, y)
		case token.GTR:
			return App("strlt", SBool, y, x)
		case token.LEQ:
			return Not(App("strlt", SBool, y, x))
		case token.GEQ:
			return Not(App("strlt", SBool, x, y))
		}
	}
	if x.S == SReal {
		switch op {
		case token.LSS:
			return mk("<", "", SBool, x, y)
		case token.GTR:
			return mk("<", "", SBool, y, x)
		case token.LEQ:
			return mk("<=", "", SBool, x, y)
		case token.GEQ:
			return mk("<=", "", SBool, y, x)
		case token.ADD:
			return mk("+", "", SReal, x, y)
		case token.SUB:
			return mk("-", "", SReal, x, y)
		case token.MUL:
			return mk("*", "", SReal, x, y)
		case token.QUO:
			return mk("/", "", SReal, x, y)
		}
	}
	if x.S == SBool {
		switch op {
		case token.AND:
			return And(x, y)
		case token.OR:
			return Or(x, y)
		}
	}
	switch op {
	case token.ADD:
		return Add(x, y)
	case token.SUB:
		return Sub(x, y)
	case token.MUL:
		return Mul(x, y)
	case token.LSS:
		return Lt(x, y)
	case token.LEQ:
		return Le(x, y)
	case token.GTR:
		return Gt(x, y)
	case token.GEQ:
		return Ge(x, y)
	case token.QUO:
		ex.panicIf(st, Eq(y, IntLit(0)), "div-by-zero", pos)
		if xv, ok := x.IntVal(); ok {
			if yv, ok := y.IntVal(); ok && yv != 0 {
				return IntLit(xv / yv)
			}
		}
		return App("go.div", SInt, x, y)
	case token.REM:
		ex.panicIf(st, Eq(y, IntLit(0)), "div-by-zero", pos)
		if xv, ok := x.IntVal(); ok {
			if yv, ok := y.IntVal(); ok && yv != 0 {
				return IntLit(xv % yv)
			}
		}
		return App("go.rem", SInt, x, y)
	case token.AND, token.OR, token.XOR, token.SHL, token.SHR, token.AND_NOT:
		if xv, ok := x.IntVal(); ok {
			if yv, ok := y.IntVal(); ok {
				switch op {
				case token.AND:
					return IntLit(xv & yv)
				case token.OR:
					return IntLit(xv | yv)
				case token.XOR:
					return IntLit(xv ^ yv)
				case token.SHL:
					return IntLit(xv << uint(yv))
				case token.SHR:
					return IntLit(xv >> uint(yv))
				case token.AND_NOT:
					return IntLit(xv &^ yv)
				}
			}
		}
		return App("go.bit"+op.String(), SInt, x, y)
	}
	panic(unsupported("binop " + op.String()))
}

// equal implements Go's == on values of static type t.
func (ex *Exec) equal(a, b Value, t types.Type) *Term {
	switch x := a.(type) {
	case *Term:
		y, ok := b.(*Term)
		if !ok {
			panic(unsupported(fmt.Sprintf("== between %T and %T", a, b)))
		}
		if x.S == SBytes {
			// only comparison with nil is legal in Go
			return Eq(x, y)
		}
		return Eq(x, y)
	case *PtrVal:
		return ex.ptrEq(x, b.(*PtrVal))
	case *IfaceVal:
		return ex.ifaceEq(x, b.(*IfaceVal))
	case *SliceVal:
		// comparison with nil only
		y := b.(*SliceVal)
		var cs []*Term
		for _, p := range x.Alts {
			for _, q := range y.Alts {
				if p.O == nil && q.O == nil {
					cs = append(cs, And(p.C, q.C))
				}
			}
		}
		return Or(cs...)
	case *MapVal:
		y := b.(*MapVal)
		var cs []*Term
		for _, p := range x.Alts {
			for _, q := range y.Alts {
				if p.O == nil && q.O == nil {
					cs = append(cs, And(p.C, q.C))
				}
			}
		}
		return Or(cs...)
	case *FuncVal:
		y := b.(*FuncVal)
		var cs []*Term
		for _, p := range x.Alts {
			for _, q := range y.Alts {
				pn := p.Fn == nil && p.Opaque == nil && p.Native == nil
				qn := q.Fn == nil && q.Opaque == nil && q.Native == nil
				if pn && qn {
					cs = append(cs, And(p.C, q.C))
				} else if p.Opaque != nil && qn {
					cs = append(cs, And(p.C, q.C, App("funcnil", SBool, p.Opaque)))
				} else if q.Opaque != nil && pn {
					cs = append(cs, And(p.C, q.C, App("funcnil", SBool, q.Opaque)))
				}
			}
		}
		return Or(cs...)
	case *StructVal:
		y := b.(*StructVal)
		var cs []*Term
		st := x.T.Underlying().(*types.Struct)
		for i := range x.F {
			cs = append(cs, ex.equal(x.F[i], y.F[i], st.Field(i).Type()))
		}
		return And(cs...)
	}
	panic(unsupported(fmt.Sprintf("== on %T", a)))
}

func (ex *Exec) ifaceEq(x, y *IfaceVal) *Term {
	var cs []*Term
	for _, p := range x.Alts {
		for _, q := range y.Alts {
			c := And(p.C, q.C)
			if c == TFalse {
				continue
			}
			switch {
			case p.Opaque != nil && q.Opaque != nil:
				cs = append(cs, And(c, Eq(p.Opaque, q.Opaque)))
			case p.Opaque != nil:
				if q.T == nil {
					cs = append(cs, And(c, Eq(tagOfItem(p.Opaque), TagNil)))
				} else {
					cs = append(cs, And(c, Eq(p.Opaque, ex.abstractAlt(q))))
				}
			case q.Opaque != nil:
				if p.T == nil {
					cs = append(cs, And(c, Eq(tagOfItem(q.Opaque), TagNil)))
				} else {
					cs = append(cs, And(c, Eq(q.Opaque, ex.abstractAlt(p))))
				}
			case p.T == nil && q.T == nil:
				cs = append(cs, c)
			case p.T == nil || q.T == nil:
			case types.Identical(p.T, q.T):
				cs = append(cs, And(c, ex.equal(p.V, q.V, p.T)))
			}
		}
	}
	return Or(cs...)
}

func (ex *Exec) makeInterface(v Value, from, to types.Type) Value {
	if classify(to) == KErr {
		// error values: abstract to a non-nil Err token per dynamic type/value
		if t, ok := v.(*Term); ok && t.S == SErr {
			return t
		}
		e := Fresh("err", SErr)
		ex.assume(Neq(e, ErrNil))
		return e
	}
	if classify(to) == KOpaque {
		return Fresh("opaque."+typeName(to), sortOf(to))
	}
	return &IfaceVal{Alts: []IfaceAlt{{C: TTrue, T: from, V: v}}}
}

func (ex *Exec) convert(st *State, v Value, from, to types.Type, pos token.Pos) Value {
	kf, kt := classify(from), classify(to)
	switch {
	case kf == KUnsafePtr || kt == KUnsafePtr:
		return v // pointer reinterpretation: same target, layout justified by C08
	case kf == KStr && kt == KBytes:
		return S2B(v.(*Term))
	case kf == KBytes && kt == KStr:
		return B2S(v.(*Term))
	case kf == KStr && kt == KStr, kf == KBytes && kt == KBytes:
		return v
	case kf == KInt && kt == KInt:
		t := v.(*Term)
		fb, _ := from.Underlying().(*types.Basic)
		tb, _ := to.Underlying().(*types.Basic)
		if fb != nil && tb != nil && fb.Info()&types.IsUnsigned == 0 && tb.Info()&types.IsUnsigned != 0 {
			// signed -> unsigned wraps for negative values
			if n, ok := t.IntVal(); ok && n >= 0 {
				return t
			}
			return Ite(Ge(t, IntLit(0)), t, App("go.wrap."+tb.Name(), SInt, t))
		}
		return t
	case kf == KInt && kt == KFloat:
		return mk("to_real", "", SReal, v.(*Term))
	case kf == KFloat && kt == KInt:
		return App("go.f2i", SInt, v.(*Term))
	case kf == KFloat && kt == KFloat:
		return v
	case kf == KInt && kt == KStr:
		return App("go.rune2str", SStr, v.(*Term))
	case kf == KPtr && kt == KPtr:
		return v
	case kf == KSlice && kt == KSlice:
		return v
	case kf == KStruct && kt == KStruct:
		return ex.changeType(v, to)
	}
	panic(unsupported(fmt.Sprintf("convert %s -> %s", from, to)))
}

func (ex *Exec) typeAssert(st *State, x *ssa.TypeAssert) Value {
	v := ex.operand(st, x.X)
	at := x.AssertedType
	if t, ok := v.(*Term); ok {
		// assertion on error / opaque interface values
		okc := App("typeis."+typeName(at), SBool, t)
		var res Value
		if isScalarKind(classify(at)) {
			res = App("as."+typeName(at), sortOf(at), t)
		} else {
			res = ex.symValue(at, ufNamer("as."+typeName(at), t), false)
		}
		if x.CommaOk {
			return &TupleVal{V: []Value{res, okc}}
		}
		ex.panicIf(st, Not(okc), "type-assert", x.Pos())
		return res
	}
	iv := ex.normIface(v.(*IfaceVal))
	okc, res := ex.assertTo(iv, at)
	if x.CommaOk {
		if res == nil {
			res = ex.zeroValue(at)
		} else if okc != TTrue {
			res = ex.merge(okc, res, ex.zeroValue(at))
		}
		return &TupleVal{V: []Value{res, okc}}
	}
	ex.panicIf(st, Not(okc), "type-assert", x.Pos())
	if res == nil {
		res = ex.zeroValue(at)
	}
	return res
}

// assertTo returns the condition under which iv's dynamic type matches `at`, and the value then.
func (ex *Exec) assertTo(iv *IfaceVal, at types.Type) (*Term, Value) {
	_, toIface := at.Underlying().(*types.Interface)
	okc := TFalse
	var res Value
	addRes := func(c *Term, v Value) {
		if res == nil {
			res = v
		} else {
			res = ex.merge(c, v, res)
		}
		okc = Or(okc, c)
	}
	for _, al := range iv.Alts {
		if al.C == TFalse {
			continue
		}
		if al.Opaque != nil {
			if toIface {
				// every in-package item type implements the item interfaces; nil does not
				c := And(al.C, ex.opaqueImplements(al.Opaque, at))
				addRes(c, &IfaceVal{Alts: []IfaceAlt{{C: TTrue, Opaque: al.Opaque}}})
				continue
			}
			c := And(al.C, Eq(tagOfItem(al.Opaque), TagOf(at)))
			addRes(c, ex.materialise(al.Opaque, at))
			continue
		}
		if al.T == nil {
			continue
		}
		if toIface {
			if types.Implements(al.T, at.Underlying().(*types.Interface)) {
				addRes(al.C, &IfaceVal{Alts: []IfaceAlt{{C: TTrue, T: al.T, V: al.V}}})
			}
			continue
		}
		if types.Identical(al.T, at) {
			addRes(al.C, al.V)
		}
	}
	return okc, res
}

// opaqueImplements: condition under which the dynamic type of opaque item x implements iface.
func (ex *Exec) opaqueImplements(x *Term, iface types.Type) *Term {
	it := iface.Underlying().(*types.Interface)
	var cs []*Term
	all := true
	for _, t := range ex.itemTypes() {
		if types.Implements(t, it) {
			cs = append(cs, Eq(tagOfItem(x), TagOf(t)))
		} else {
			all = false
		}
	}
	if all {
		return Neq(tagOfItem(x), TagNil)
	}
	return Or(cs...)
}

func (ex *Exec) indexAddr(st *State, x *ssa.IndexAddr) Value {
	base := ex.operand(st, x.X)
	idx := ex.operand(st, x.Index).(*Term)
	switch b := base.(type) {
	case *PtrVal: // pointer to array
		r := &PtrVal{}
		for _, al := range b.Alts {
			if al.O == nil {
				ex.panicIf(st, al.C, "nil-deref", x.Pos())
				continue
			}
			n := x.X.Type().Underlying().(*types.Pointer).Elem().Underlying().(*types.Array).Len()
			ex.panicIf(st, And(al.C, Or(Lt(idx, IntLit(0)), Ge(idx, IntLit(n)))), "index-out-of-range", x.Pos())
			path := append(append([]PathElem(nil), al.Path...), PathElem{Index: idx})
			r.Alts = append(r.Alts, PtrAlt{C: al.C, O: al.O, Path: path})
		}
		return r
	case *SliceVal:
		r := &PtrVal{}
		for _, al := range b.Alts {
			ex.panicIf(st, And(al.C, Or(Lt(idx, IntLit(0)), Ge(idx, al.Len))), "index-out-of-range", x.Pos())
			if al.O == nil {
				continue
			}
			r.Alts = append(r.Alts, PtrAlt{C: al.C, O: al.O, Path: []PathElem{{Index: Add(al.Off, idx)}}})
		}
		if len(r.Alts) == 0 {
			r.Alts = []PtrAlt{{C: TTrue}}
		}
		return r
	case *Term:
		if b.S == SBytes {
			// read-only view of the bytes of a byte-string term
			ex.panicIf(st, Or(Lt(idx, IntLit(0)), Ge(idx, BLen(b))), "index-out-of-range", x.Pos())
			key := fmt.Sprintf("bytesview|%d", b.id)
			var o *Obj
			if v, ok := ex.matCache[key]; ok {
				o = v.(*PtrVal).Alts[0].O
			} else {
				o = ex.newObj("bytes:"+b.String(), OSymArr, x.Type().Underlying().(*types.Pointer).Elem())
				o.owner = 0
				o.readonly = true
				arr := App("bytes.at", ArraySort(SInt), b)
				o.init = func() Value { return arr }
				ex.matCache[key] = &PtrVal{Alts: []PtrAlt{{C: TTrue, O: o}}}
			}
			return &PtrVal{Alts: []PtrAlt{{C: TTrue, O: o, Path: []PathElem{{Index: idx}}}}}
		}
	}
	panic(unsupported(fmt.Sprintf("IndexAddr on %T", base)))
}

func (ex *Exec) index(st *State, x *ssa.Index) Value {
	base := ex.operand(st, x.X)
	idx := ex.operand(st, x.Index).(*Term)
	switch b := base.(type) {
	case *Term:
		if b.S == SStr {
			ex.panicIf(st, Or(Lt(idx, IntLit(0)), Ge(idx, SLen(b))), "index-out-of-range", x.Pos())
			return App("sat", SInt, b, idx)
		}
	case *ArrVal:
		return ex.arrSelect(b, idx)
	}
	panic(unsupported(fmt.Sprintf("Index on %T", base)))
}

func (ex *Exec) makeSlice(st *State, x *ssa.MakeSlice) Value {
	ln := ex.operand(st, x.Len).(*Term)
	if cp, ok := ex.operand(st, x.Cap).(*Term); ok {
		if !cp.IsLit() || !ln.IsLit() {
			ex.allocs = append(ex.allocs, AllocRec{C: st.pc, Len: ln, Cap: cp, Pos: ex.pos(x.Pos())})
		}
		ex.panicIf(st, Or(Lt(cp, ln), Lt(cp, IntLit(0))), "makeslice-cap", x.Pos())
	}
	if classify(x.Type()) == KBytes {
		if n, ok := ln.IntVal(); ok && n == 0 {
			return BytesLit("")
		}
		b := Fresh("zeros", SBytes)
		ex.panicIf(st, Lt(ln, IntLit(0)), "makeslice-negative", x.Pos())
		ex.assume(Implies(Ge(ln, IntLit(0)), Eq(App("blen", SInt, b), ln)))
		return b
	}
	el := x.Type().Underlying().(*types.Slice).Elem()
	ex.panicIf(st, Lt(ln, IntLit(0)), "makeslice-negative", x.Pos())
	o := ex.freshArr(st, el, ln, "make@"+ex.pos(x.Pos()))
	return &SliceVal{Elem: el, Alts: []SliceAlt{{C: TTrue, O: o, Off: IntLit(0), Len: ln}}}
}

// freshArr allocates a new backing array: concrete if the length is concrete, else symbolic.
func (ex *Exec) freshArr(st *State, el types.Type, ln *Term, name string) *Obj {
	if n, ok := ln.IntVal(); ok && n <= 256 {
		o := ex.newObj(name, OConcArr, el)
		o.fresh = true
		av := &ArrVal{E: make([]Value, n)}
		for i := range av.E {
			av.E[i] = ex.zeroValue(el)
		}
		st.heap[o] = av
		return o
	}
	o := ex.newObj(name, OSymArr, el)
	o.fresh = true
	nm := varNamer(fmt.Sprintf("arr!%d", o.id))
	st.heap[o] = ex.symValue(el, nm, true)
	return o
}

func (ex *Exec) sliceOp(st *State, x *ssa.Slice) Value {
	base := ex.operand(st, x.X)
	var lo, hi *Term
	if x.Low != nil {
		lo = ex.operand(st, x.Low).(*Term)
	} else {
		lo = IntLit(0)
	}
	if x.High != nil {
		hi = ex.operand(st, x.High).(*Term)
	}
	switch b := base.(type) {
	case *Term:
		switch b.S {
		case SBytes:
			ln := BLen(b)
			if hi == nil {
				hi = ln
			}
			ex.panicIf(st, Or(Lt(lo, IntLit(0)), Lt(hi, lo), Gt(hi, ln)), "slice-bounds", x.Pos())
			if lo == IntLit(0) && hi == ln {
				return b
			}
			r := App("bslice", SBytes, b, lo, hi)
			// only a slice expression within bounds has a length (the assumption must not rule the panic out)
			ex.assume(Implies(And(Le(IntLit(0), lo), Le(lo, hi), Le(hi, ln)), Eq(App("blen", SInt, r), Sub(hi, lo))))
			return r
		case SStr:
			ln := SLen(b)
			if hi == nil {
				hi = ln
			}
			ex.panicIf(st, Or(Lt(lo, IntLit(0)), Lt(hi, lo), Gt(hi, ln)), "slice-bounds", x.Pos())
			if lo == IntLit(0) && hi == ln {
				return b
			}
			r := App("sslice", SStr, b, lo, hi)
			ex.assume(Implies(And(Le(IntLit(0), lo), Le(lo, hi), Le(hi, ln)), Eq(App("slen", SInt, r), Sub(hi, lo))))
			return r
		}
	case *PtrVal: // pointer to array
		arrT := x.X.Type().Underlying().(*types.Pointer).Elem().Underlying().(*types.Array)
		n := IntLit(arrT.Len())
		if hi == nil {
			hi = n
		}
		if classify(x.Type()) == KBytes {
			// byte arrays (varargs, make([]byte, n)) become byte-string terms; aliasing with the array is dropped
			lov, ok1 := lo.IntVal()
			hiv, ok2 := hi.IntVal()
			if !ok1 || !ok2 || len(b.Alts) != 1 || b.Alts[0].O == nil {
				panic(unsupported("slice of byte array with symbolic bounds"))
			}
			av := ex.navigate(st, ex.heapGet(st, b.Alts[0].O), b.Alts[0].Path, b.Alts[0].O).(*ArrVal)
			r := BytesLit("")
			for i := lov; i < hiv; i++ {
				c := av.E[i].(*Term)
				if cv, ok := c.IntVal(); ok && cv < 128 {
					r = BCat(r, BytesLit(string(rune(cv))))
				} else {
					r = BCat(r, App("byte1", SBytes, c))
				}
			}
			return r
		}
		r := &SliceVal{Elem: arrT.Elem()}
		for _, al := range b.Alts {
			if al.O == nil {
				ex.panicIf(st, al.C, "nil-deref", x.Pos())
				continue
			}
			if len(al.Path) != 0 {
				panic(unsupported("slice of embedded array"))
			}
			// the cell holds an *ArrVal; reuse the object as a concrete backing array
			r.Alts = append(r.Alts, SliceAlt{C: al.C, O: al.O, Off: lo, Len: Sub(hi, lo)})
		}
		return r
	case *SliceVal:
		r := &SliceVal{Elem: b.Elem}
		for _, al := range b.Alts {
			h := hi
			if h == nil {
				h = al.Len
			}
			// bounds are checked against len (cap is not modelled: slicing beyond len is treated as a panic)
			ex.panicIf(st, And(al.C, Or(Lt(lo, IntLit(0)), Lt(h, lo), Gt(h, al.Len))), "slice-bounds", x.Pos())
			if al.O == nil {
				r.Alts = append(r.Alts, SliceAlt{C: al.C, Off: IntLit(0), Len: IntLit(0)})
				continue
			}
			r.Alts = append(r.Alts, SliceAlt{C: al.C, O: al.O, Off: Add(al.Off, lo), Len: Sub(h, lo)})
		}
		return r
	}
	panic(unsupported(fmt.Sprintf("Slice on %T", base)))
}

// ---------- maps ----------

func (ex *Exec) mapContent(st *State, o *Obj) *MapContent {
	return ex.heapGet(st, o).(*MapContent)
}

func (ex *Exec) mapUpdate(st *State, x *ssa.MapUpdate) {
	m := ex.operand(st, x.Map).(*MapVal)
	k := ex.operand(st, x.Key).(*Term)
	v := ex.operand(st, x.Value)
	for _, al := range m.Alts {
		if al.O == nil {
			ex.panicIf(st, al.C, "nil-map-write", x.Pos())
			continue
		}
		g := And(st.pc, al.C)
		if g == TFalse {
			continue
		}
		mc := ex.mapContent(st, al.O)
		n := &MapContent{Base: mc.Base, Ents: append(append([]MapEnt(nil), mc.Ents...), MapEnt{C: al.C, K: k, V: v})}
		st.heap[al.O] = n
		ex.writes = append(ex.writes, WriteRec{C: g, O: al.O, Pos: ex.pos(x.Pos())})
	}
}

// mapGet returns (present, value) for key k.
func (ex *Exec) mapGet(mc *MapContent, k *Term, vt types.Type) (*Term, Value) {
	has := TFalse
	var val Value = ex.zeroValue(vt)
	if mc.Base != nil {
		has = mc.Base.Has(k)
		val = mc.Base.Get(k)
	}
	for _, e := range mc.Ents {
		c := And(e.C, Eq(e.K, k))
		if c == TFalse {
			continue
		}
		if e.Del {
			has = And(has, Not(c))
			val = ex.merge(c, ex.zeroValue(vt), val)
			continue
		}
		has = Or(has, c)
		val = ex.merge(c, e.V, val)
	}
	return has, val
}

func (ex *Exec) lookup(st *State, x *ssa.Lookup) Value {
	base := ex.operand(st, x.X)
	k := ex.operand(st, x.Index).(*Term)
	switch m := base.(type) {
	case *MapVal:
		var has *Term = TFalse
		var val Value = ex.zeroValue(m.V)
		for _, al := range m.Alts {
			if al.O == nil {
				continue
			}
			h, v := ex.mapGet(ex.mapContent(st, al.O), k, m.V)
			has = Or(has, And(al.C, h))
			val = ex.merge(And(al.C, h), v, val)
		}
		if x.CommaOk {
			return &TupleVal{V: []Value{val, has}}
		}
		return val
	case *Term:
		if m.S == SStr {
			ex.panicIf(st, Or(Lt(k, IntLit(0)), Ge(k, SLen(m))), "index-out-of-range", x.Pos())
			return App("sat", SInt, m, k)
		}
		// opaque map types from other packages (e.g. url.Values)
		if tup, ok := x.Type().(*types.Tuple); ok {
			v := ex.symValue(tup.At(0).Type(), ufNamer("maplookup."+string(m.S), m, k), false)
			return &TupleVal{V: []Value{v, App("maphas."+string(m.S), SBool, m, k)}}
		}
		res := ex.symValue(x.Type(), ufNamer("maplookup."+string(m.S), m, k), false)
		return res
	}
	panic(unsupported(fmt.Sprintf("Lookup on %T", base)))
}

// range over a map or string: the iteration order and count are unknown; each Next yields an
// uninterpreted (ok, key, value) triple (loops over them are unrolled up to the symbolic bound).
func (ex *Exec) rangeInit(st *State, x *ssa.Range) Value {
	v := ex.operand(st, x.X)
	if mv, ok := v.(*MapVal); ok && len(mv.Alts) == 1 && mv.Alts[0].O != nil {
		// engine-level map with a concrete list of entries: iterate them in insertion order
		cnt := ex.newObj("range-counter", OCell, nil)
		cnt.fresh = true
		st.heap[cnt] = IntLit(0)
		return &HostVal{Kind: "maprange", V: &TupleVal{V: []Value{mv, &PtrVal{Alts: []PtrAlt{{C: TTrue, O: cnt}}}}}}
	}
	return &HostVal{Kind: "range", V: v}
}
func (ex *Exec) rangeNext(st *State, x *ssa.Next) Value {
	if hv, ok := ex.operand(st, x.Iter).(*HostVal); ok && hv.Kind == "maprange" {
		tv := hv.V.(*TupleVal)
		mv, cp := tv.V[0].(*MapVal), tv.V[1].(*PtrVal)
		mc := ex.mapContent(st, mv.Alts[0].O)
		iT, _ := ex.heapGet(st, cp.Alts[0].O).(*Term)
		i, _ := iT.IntVal()
		tup := x.Type().(*types.Tuple)
		res := &TupleVal{V: []Value{BoolLit(int(i) < len(mc.Ents))}}
		if int(i) < len(mc.Ents) {
			res.V = append(res.V, mc.Ents[i].K, mc.Ents[i].V)
			st.heap[cp.Alts[0].O] = IntLit(i + 1)
		} else {
			for k := 1; k < tup.Len(); k++ {
				t := tup.At(k).Type()
				if b, ok := t.(*types.Basic); ok && b.Kind() == types.Invalid {
					res.V = append(res.V, nil)
				} else if k == 1 {
					res.V = append(res.V, StrLit(""))
				} else {
					res.V = append(res.V, ex.zeroValue(mv.V))
				}
			}
		}
		return res
	}
	ex.objSeq++
	tup := x.Type().(*types.Tuple)
	tv := &TupleVal{V: []Value{Fresh("range.ok", SBool)}}
	for i := 1; i < tup.Len(); i++ {
		t := tup.At(i).Type()
		if b, ok := t.(*types.Basic); ok && b.Kind() == types.Invalid {
			tv.V = append(tv.V, nil)
			continue
		}
		tv.V = append(tv.V, ex.symValue(t, varNamer(fmt.Sprintf("range!%d.%d", ex.objSeq, i)), false))
	}
	ex.note("range over a map/string: iteration modelled as an unknown sequence of entries")
	return tv
}
