package main

import (
	"fmt"
	"testing"
)

func TestDebugSetLaw(t *testing.T) {
	w, _ := LoadWorld()
	cs, err := LoadContracts()
	if err != nil {
		t.Fatal(err)
	}
	ex := w.NewExec()
	ex.UseLoops(cs, "(NaturalLanguageValues).Get", "(*NaturalLanguageValues).Set")
	st := newState()
	nlvT := w.Type("NaturalLanguageValues")
	cell := ex.newObj("n", OCell, nlvT)
	cell.owner = 0
	n0 := ex.symValue(nlvT, varNamer("n"), false)
	cell.init = func() Value { return n0 }
	np := &PtrVal{Alts: []PtrAlt{{C: TTrue, O: cell}}}
	ref, v := Var("ref", SStr), Var("v", SBytes)
	set := w.lookupFn("(*NaturalLanguageValues).Set")
	ex.Call(st, set, []Value{np, ref, v}, nil)
	fmt.Println("PC:", st.pc)
	n1 := ex.heapGet(st, cell).(*SliceVal)
	for _, al := range n1.Alts {
		fmt.Println("alt", al.C, al.O, al.Off, al.Len)
		if al.O != nil {
			fmt.Printf("   content %v\n", ex.heapGet(st, al.O))
		}
	}
	for _, so := range ex.sideObls {
		fmt.Println("side", so.Name)
	}
}
