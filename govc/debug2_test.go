package main

import (
	"fmt"
	"testing"
)

func collectVars(t *Term, seen map[*Term]bool, out map[string]bool) {
	if seen[t] {
		return
	}
	seen[t] = true
	if t.Op == "var" && t.S == SErr {
		out[t.Name] = true
	}
	for _, a := range t.Args {
		collectVars(a, seen, out)
	}
}

func TestDebugC03Item(t *testing.T) {
	w, _ := LoadWorld()
	ex := w.NewExec()
	installGobItemContracts(ex, w)
	st := newState()
	T := w.Type("*Object")
	iv, _, _ := ex.symItemOfType(T, "x")
	r := ex.Call(st, w.Func("gobEncodeItem"), []Value{iv}, nil).(*TupleVal)
	r2 := ex.Call(st, w.Func("gobDecodeItem"), []Value{r.V[0]}, nil).(*TupleVal)
	out := map[string]bool{}
	collectVars(r2.V[1].(*Term), map[*Term]bool{}, out)
	fmt.Println("error sources in decode result:", out)
	typ := Var("x.Type", SStr)
	hyp := And(append([]*Term{ex.NoPanic(), st.pc, strIn(typ, []string{"", "Note", "Object"}), Neq(Var("x.ID", SStr), StrLit(""))}, ex.assumes...)...)
	for n := range out {
		e := Var(n, SErr)
		sc := &Script{Asserts: []*Term{hyp, Eq(r2.V[1].(*Term), e)}}
		if quickSat(sc.Render(allAxioms)) {
			fmt.Println("FEASIBLE error:", n)
		}
	}
	out2 := map[string]bool{}
	collectVars(r.V[1].(*Term), map[*Term]bool{}, out2)
	fmt.Println("error sources in encode result:", out2)
}
