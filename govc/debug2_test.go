package main

import (
	"fmt"
	"runtime/debug"
	"testing"
	"time"
)

func TestDebugMarshal(t *testing.T) {
	w, err := LoadWorld()
	if err != nil {
		t.Fatal(err)
	}
	for _, tn := range []string{"Object", "Activity", "Actor", "Place", "Link", "OrderedCollectionPage", "Question"} {
		ex := w.NewExec()
		st := newState()
		sv := ex.symValue(w.Type(tn), varNamer("x"), false)
		t0 := time.Now()
		func() {
			defer func() {
				if r := recover(); r != nil {
					fmt.Println("PANIC", r); debug.PrintStack()
				}
			}()
			res := ex.Call(st, w.Method(tn, "MarshalJSON"), []Value{sv}, nil)
			tv := res.(*TupleVal)
			fmt.Printf("%s: bytes term size? %d err=%v\n", tn, len(tv.V[0].(*Term).String()), tv.V[1])
		}()
		fmt.Println(tn, "time", time.Since(t0), "feas", ex.feasQueries, "terms", termSeq, "panics", len(ex.panics), "bounded", ex.bounded)
		for n := range ex.notes {
			fmt.Println("   note:", n)
		}
	}
}
