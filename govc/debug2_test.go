package main

import (
	"fmt"
	"os"
	"runtime/pprof"
	"testing"
	"time"
)

func TestDebugC13(t *testing.T) {
	go func() { time.Sleep(30 * time.Second); pprof.StopCPUProfile(); os.Exit(3) }()
	f, _ := os.Create("/tmp/c13.prof")
	pprof.StartCPUProfile(f)
	w, _ := LoadWorld()
	cs, err := LoadContracts()
	if err != nil {
		t.Fatal(err)
	}
	for _, n := range []string{"(ItemCollection).Contains", "(IRIs).Contains", "(*IRIs).Append"} {
		c := NewCheck("CXX", "quick")
		t0 := time.Now()
		verifyContract(w, c, cs, "C13", n, []string{"(IRIs).Contains"}, nil, installItemsEqContract)
		fmt.Println(n, "gen", time.Since(t0), "obls", len(c.Obls), "terms", termSeq)
		for _, o := range c.Obls {
			if o.EngineErr != "" {
				fmt.Println("   ERR", o.Name, o.EngineErr)
			}
		}
	}
}
