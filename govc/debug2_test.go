package main

import (
	"fmt"
	"os"
	"runtime/pprof"
	"testing"
	"time"
)

func TestDebugC09(t *testing.T) {
	go func() { time.Sleep(45 * time.Second); pprof.StopCPUProfile(); fmt.Println("TIMEOUT terms", termSeq, "feas", curExec.feasQueries, "acts", curExec.actSeq); os.Exit(3) }()
	f, _ := os.Create("/tmp/c09.prof")
	pprof.StartCPUProfile(f)
	w, _ := LoadWorld()
	ex := w.NewExec()
	installEqContracts(ex)
	st := newState()
	T := w.Type("*Object")
	iv, _, _ := ex.symItemOfType(T, "x")
	t0 := time.Now()
	res := ex.Call(st, w.Func("ItemsEqual"), []Value{iv, iv}, nil).(*Term)
	fmt.Println("done", time.Since(t0), termSeq, len(res.String()), "feas", ex.feasQueries, "acts", ex.actSeq)
	pprof.StopCPUProfile()
}
