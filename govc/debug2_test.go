package main

import (
	"fmt"
	"testing"
	"time"
)

func TestDebugJSONTop(t *testing.T) {
	w, err := LoadWorld()
	if err != nil {
		t.Fatal(err)
	}
	ex := w.NewExec()
	st := newState()
	c07InstallLoaderContracts(ex, w, "JSONLoad")
	doc := Var("doc", jvSort)
	ex.knownTerms[jType(doc)] = IntLit(jTypeObject)
	t0 := time.Now()
	func() {
		defer func() {
			if r := recover(); r != nil {
				fmt.Println("PANIC", r, "stack:")
				for _, f := range ex.stack {
					fmt.Println("   ", f)
				}
			}
		}()
		res := ex.Call(st, w.Func("JSONUnmarshalToItem"), []Value{doc}, nil)
		fmt.Printf("%T\n", res)
	}()
	fmt.Println("time", time.Since(t0), "feas", ex.feasQueries, "terms", termSeq, "calls", len(ex.calls), "acts", ex.actSeq)
}
