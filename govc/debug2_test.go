package main

import (
	"fmt"
	"testing"
)

func TestDebugC14(t *testing.T) {
	w, _ := LoadWorld()
	ex := w.NewExec()
	ex.abstractFns["stripFragment"] = true
	ex.abstractFns["stripScheme"] = true
	st := newState()
	a, b, cs := Var("a", SStr), Var("b", SStr), Var("cs", SBool)
	ua, ub := App("urlOf", urlSort, a), App("urlOf", urlSort, b)
	ex.mkQuery(w, ua, QueryModel{}, "a")
	ex.mkQuery(w, ub, QueryModel{}, "b")
	rab := ex.Call(st, w.Func("irisEqual"), []Value{a, b, cs}, nil).(*Term)
	fmt.Println("RAB:", rab)
	fmt.Println("panics", len(ex.panics), "notes", ex.notes)
}
