package main

import (
	"fmt"
	"go/types"
	"regexp"
	"sort"

	"golang.org/x/tools/go/ssa"
)

func init() { drivers["C04"] = checkC04 }

var c04Names = regexp.MustCompile(`^(UnmarshalJSON|UnmarshalText|UnmarshalBinary|GobDecode|JSON(Get|Load|Items|Unmarshal)\w*|asIRI|unmap\w+|gobDecode\w*|tryDecode\w*|GetItemByType)$`)

func decoderFunctions(w *World) []*ssa.Function {
	var fns []*ssa.Function
	for fn := range ssautilAllFunctions(w) {
		if fn.Parent() != nil || fn.TypeParams().Len() > 0 || len(fn.Blocks) == 0 || fn.Synthetic != "" {
			continue
		}
		if c04Names.MatchString(fn.Name()) {
			fns = append(fns, fn)
		}
	}
	sort.Slice(fns, func(i, j int) bool { return fnName(fns[i]) < fnName(fns[j]) })
	return fns
}

// freshResults: arbitrary results of the given signature.
func (ex *Exec) freshResults(sig *types.Signature, tag string) Value {
	rs := sig.Results()
	mk := func(i int) Value {
		ex.objSeq++
		return ex.symValue(rs.At(i).Type(), varNamer(fmt.Sprintf("%s!%d.r%d", tag, ex.objSeq, i)), false)
	}
	switch rs.Len() {
	case 0:
		return nil
	case 1:
		return mk(0)
	}
	tv := &TupleVal{}
	for i := 0; i < rs.Len(); i++ {
		tv.V = append(tv.V, mk(i))
	}
	return tv
}

func checkC04(w *World, c *Check) {
	c.Exhaustive = true
	fns := decoderFunctions(w)
	family := map[string]bool{}
	for _, f := range fns {
		family[fnName(f)] = true
	}
	for _, fn := range fns {
		fn := fn
		name := fnName(fn)
		grp := "C04/" + name
		guard(c, grp, func() {
			ex := w.NewExec()
			type nilArg struct {
				callee string
				c      *Term
				pos    string
			}
			var nilArgs []nilArg
			for g := range family {
				g := g
				ex.hooks[g] = func(ex *Exec, st *State, f *ssa.Function, a []Value) (Value, bool) {
					// callee contract: for non-nil targets and any input it returns without panicking, having written
					// anything to what its pointer arguments point to
					for i, v := range a {
						switch p := v.(type) {
						case *PtrVal:
							elem := f.Params[i].Type().Underlying().(*types.Pointer).Elem()
							for _, al := range p.Alts {
								if al.O == nil {
									nilArgs = append(nilArgs, nilArg{g, And(st.pc, al.C), ex.pos(f.Pos())})
								}
							}
							ex.objSeq++
							ex.store(st, p, ex.symValue(elem, varNamer(fmt.Sprintf("decoded!%d", ex.objSeq)), false), f.Pos())
						case *Term:
							if p.S == jvSort && c04NeedsValue[g] {
								nilArgs = append(nilArgs, nilArg{g, And(st.pc, Eq(p, jvNil)), ex.pos(f.Pos())})
							}
						}
					}
					return ex.freshResults(f.Signature, "dec:"+g), true
				}
			}
			delete(ex.hooks, name)
			st := newState()
			var args []Value
			var pre []*Term
			for _, p := range fn.Params {
				t := p.Type()
				switch {
				case classify(t) == KPtr && t.String() != "*github.com/valyala/fastjson.Value":
					args = append(args, ex.calleeVisibleArg(t, p.Name()))
				default:
					v := ex.symValue(t, varNamer(p.Name()), false)
					if tv, ok := v.(*Term); ok && tv.S == jvSort && c04NeedsValue[name] {
						pre = append(pre, Neq(tv, jvNil))
					}
					args = append(args, v)
				}
			}
			ex.Call(st, fn, args, nil)
			bound := 0
			if ex.bounded {
				bound = ex.symLoopBound
			}
			common := append(pre, ex.assumes...)
			for i, pn := range ex.panics {
				c.Add(&Obligation{Name: fmt.Sprintf("%s/nopanic/%s#%d", grp, pn.Kind, i), Group: grp, Common: common, Goal: Not(pn.C), Pos: pn.Pos, Funcs: []string{name}, Bounded: bound})
			}
			for i, na := range nilArgs {
				c.Add(&Obligation{Name: fmt.Sprintf("%s/callee-precondition/%s#%d", grp, na.callee, i), Group: grp, Common: common, Goal: Not(na.c), Pos: na.pos, Funcs: []string{name, na.callee}, Bounded: bound})
			}
			c.Add(&Obligation{Name: grp + "/returns", Group: grp, Common: common, Goal: TTrue, Pos: ex.pos(fn.Pos()), Funcs: []string{name}, Bounded: bound})
		})
	}
}

// functions whose *fastjson.Value argument must not be nil (they dereference it; every call site is checked)
var c04NeedsValue = map[string]bool{}
