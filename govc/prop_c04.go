package main

import (
	"fmt"
	"go/types"
	"regexp"
	"sort"
	"strings"

	"golang.org/x/tools/go/ssa"
)

func init() { drivers["C04"] = checkC04 }

var c04Names = regexp.MustCompile(`^(UnmarshalJSON|UnmarshalText|UnmarshalBinary|GobDecode|JSON(Get|Load|Items|Unmarshal)\w*|asIRI|unmap\w+|gobDecode\w*|tryDecode\w*)$`)

func decoderFunctions(w *World) []*ssa.Function {
	var fns []*ssa.Function
	for fn := range ssautilAllFunctions(w) {
		if fn.Parent() != nil || fn.TypeParams().Len() > 0 || len(fn.Blocks) == 0 || fn.Synthetic != "" {
			continue
		}
		if c04Names.MatchString(fn.Name()) {
			fns = append(fns, fn)
		}
	}
	sort.Slice(fns, func(i, j int) bool { return fnName(fns[i]) < fnName(fns[j]) })
	return fns
}

// freshResults: arbitrary results of the given signature.
func (ex *Exec) freshResults(sig *types.Signature, tag string) Value {
	rs := sig.Results()
	mk := func(i int) Value {
		ex.objSeq++
		return ex.symValue(rs.At(i).Type(), varNamer(fmt.Sprintf("%s!%d.r%d", tag, ex.objSeq, i)), false)
	}
	switch rs.Len() {
	case 0:
		return nil
	case 1:
		return mk(0)
	}
	tv := &TupleVal{}
	for i := 0; i < rs.Len(); i++ {
		tv.V = append(tv.V, mk(i))
	}
	return tv
}

const fastjsonValuePtr = "*github.com/valyala/fastjson.Value"

func isNilableParam(t types.Type) bool {
	return classify(t) == KPtr || t.String() == fastjsonValuePtr
}

type c04Site struct {
	callee string
	param  int
	c      *Term
	pos    string
}

type c04Run struct {
	ex    *Exec
	pre   []*Term
	sites []c04Site
}

// c04Exec runs fn with arbitrary arguments; nilParam >= 0 makes that parameter nil. Members of the decoder
// family are used by contract: with their preconditions met (needs) they return without panicking,
// having written anything to what their pointer arguments point to.
func c04Exec(w *World, fn *ssa.Function, family map[string]*ssa.Function, nilParam int) *c04Run {
	r := &c04Run{ex: w.NewExec()}
	ex := r.ex
	ex.autoInv = true
	name := fnName(fn)
	for g := range family {
		g := g
		if g == name {
			continue
		}
		ex.hooks[g] = func(ex *Exec, st *State, f *ssa.Function, a []Value) (Value, bool) {
			for i, v := range a {
				switch p := v.(type) {
				case *PtrVal:
					if f.Params[i].Type().String() == fastjsonValuePtr {
						continue
					}
					elem := f.Params[i].Type().Underlying().(*types.Pointer).Elem()
					live := &PtrVal{}
					for _, al := range p.Alts {
						if al.O == nil {
							r.sites = append(r.sites, c04Site{g, i, And(st.pc, al.C), ex.pos(f.Pos())})
						} else {
							live.Alts = append(live.Alts, al)
						}
					}
					if len(live.Alts) > 0 {
						ex.objSeq++
						ex.store(st, live, ex.symValue(elem, varNamer(fmt.Sprintf("decoded!%d", ex.objSeq)), false), f.Pos())
					}
				case *Term:
					if p.S == jvSort {
						r.sites = append(r.sites, c04Site{g, i, And(st.pc, Eq(p, jvNil)), ex.pos(f.Pos())})
					}
				}
			}
			return ex.freshResults(f.Signature, "dec:"+g), true
		}
	}
	installAppendContracts(ex)
	st := newState()
	var args []Value
	for i, p := range fn.Params {
		t := p.Type()
		switch {
		case i == nilParam && t.String() == fastjsonValuePtr:
			args = append(args, jvNil)
		case i == nilParam:
			args = append(args, &PtrVal{Alts: []PtrAlt{{C: TTrue}}})
		case classify(t) == KPtr && t.String() != fastjsonValuePtr:
			args = append(args, ex.calleeVisibleArg(t, p.Name()))
		default:
			v := ex.symValue(t, varNamer(p.Name()), false)
			if tv, ok := v.(*Term); ok && tv.S == jvSort {
				r.pre = append(r.pre, Neq(tv, jvNil))
			}
			args = append(args, v)
		}
	}
	ex.Call(st, fn, args, nil)
	return r
}

func checkC04(w *World, c *Check) {
	c.Exhaustive = true
	c.Trusted = append(c.Trusted,
		"assumed contract of github.com/valyala/fastjson: Parse/ParseBytes return a non-nil value or an error in time linear in the input and refuse nesting deeper than its MaxDepth (300); accessors Get/GetStringBytes/GetArray/GetInt*/GetFloat64/GetBool/Exists are nil-safe and never panic, Type/Bool/Object dereference their receiver; array elements are non-nil",
		"assumed contract of encoding/gob, time.Time.UnmarshalText/UnmarshalBinary, time.ParseDuration, net/url.Parse*, strings.*, bytes.*: they return a value or an error for every input and do not panic",
		"list operations Append of ItemCollection/IRIs/NaturalLanguageValues/collections are used by their contract proved in C13/C19 (no panic)",
		"go/types + go/ssa (x/tools v0.29.0); SMT solvers' unsat answers")
	c.Assume = append(c.Assume,
		"modular no-panic proof over the decoder family (every function/method named UnmarshalJSON, UnmarshalText, UnmarshalBinary, GobDecode, JSONGet*/JSONLoad*/JSONItemsFn/JSONUnmarshal*, asIRI, unmap*Properties, gobDecode*, tryDecode*, found by scanning the package): each body is executed on arbitrary bytes / an arbitrary parsed value / an arbitrary property map and non-nil targets, with the other members used by contract; every potential panic of the body (index, slice bounds, nil dereference, nil map/interface, failed assertion, negative make) is an obligation, and every internal call site must meet the callee's precondition",
		"preconditions are derived, not written: a pointer or *fastjson.Value parameter is allowed to be nil when the body run with nil there has no feasible panic and passes nil on to no callee that needs a value (greatest fixpoint over the family); otherwise the parameter must be non-nil and every call site inside the package is an obligation. Exported helpers called directly with a nil they cannot take are outside the statement (inputs are byte strings)",
		"NOT decided: the 'time and memory proportional to the input' and 'never recurses without bound' clauses beyond: recursion happens only through family members on a strictly nested JSON value (depth bounded by the parser's limit) or a strictly shorter nested gob byte string — an on-paper argument; loops of the family range over parsed arrays/maps. The follow-up clause (decoded values can be compared/re-encoded/formatted without panic) is covered only as far as C20's nil-like matrix and C12's sweep execute those operations on arbitrary values")
	fns := decoderFunctions(w)
	family := map[string]*ssa.Function{}
	for _, f := range fns {
		family[fnName(f)] = f
	}
	// ---- derive nil tolerance (greatest fixpoint, optimistic start) ----
	type key struct {
		fn    string
		param int
	}
	needs := map[key]bool{}
	nilRuns := map[key]*c04Run{}
	var derivErr error
	func() {
		defer func() {
			if r := recover(); r != nil {
				derivErr = fmt.Errorf("%v", r)
			}
		}()
		for round := 0; round < 6; round++ {
			changed := false
			for _, fn := range fns {
				for i, p := range fn.Params {
					k := key{fnName(fn), i}
					if !isNilableParam(p.Type()) || needs[k] {
						continue
					}
					run := nilRuns[k]
					if run == nil {
						func() {
							defer func() {
								if r := recover(); r != nil {
									run = nil
								}
							}()
							run = c04Exec(w, fn, family, i)
						}()
						if run == nil {
							needs[k] = true // cannot be executed with nil: require a value
							changed = true
							continue
						}
						nilRuns[k] = run
					}
					bad := false
					for _, pn := range run.ex.panics {
						if run.ex.feasible(And(append([]*Term{pn.C}, run.pre...)...)) {
							bad = true
							break
						}
					}
					if !bad {
						for _, s := range run.sites {
							if needs[key{s.callee, s.param}] && run.ex.feasible(And(append([]*Term{s.c}, run.pre...)...)) {
								bad = true
								break
							}
						}
					}
					if bad {
						needs[k] = true
						delete(nilRuns, k)
						changed = true
					}
				}
			}
			if !changed {
				break
			}
		}
	}()
	if derivErr != nil {
		c.Add(&Obligation{Name: "C04/preconditions", EngineErr: derivErr.Error()})
		return
	}
	var needList []string
	for k := range needs {
		needList = append(needList, fmt.Sprintf("%s#%d", k.fn, k.param))
	}
	sort.Strings(needList)
	c.Notes = append(c.Notes, fmt.Sprintf("derived preconditions (parameter must be non-nil): %v", needList))

	emit := func(grp, name string, run *c04Run) {
		ex := run.ex
		bound := 0
		if ex.bounded {
			bound = ex.symLoopBound
		}
		common := append(append([]*Term(nil), run.pre...), ex.assumes...)
		for i, pn := range ex.panics {
			c.Add(&Obligation{Name: fmt.Sprintf("%s/nopanic/%s#%d", grp, pn.Kind, i), Group: grp, Common: common, Goal: Not(pn.C), Pos: pn.Pos, Funcs: []string{name}, Bounded: bound, Replay: c04Replay})
		}
		for _, so := range ex.sideObls {
			c.Add(&Obligation{Name: fmt.Sprintf("%s/loop/%s", grp, so.Name), Group: grp, Common: common, Hyps: []*Term{so.Hyp}, Goal: so.Goal, Pos: so.Pos, Funcs: []string{name}, Bounded: bound})
		}
		// memory: a buffer sized by a number read from the input must be bounded by the size of some input
		if len(ex.allocs) > 0 {
			var lens []*Term
			seenT := map[*Term]bool{}
			var walk func(t *Term)
			walk = func(t *Term) {
				if seenT[t] {
					return
				}
				seenT[t] = true
				if t.Op == "app" && (t.Name == "blen" || t.Name == "slen" || t.Name == "jlen") {
					lens = append(lens, t)
				}
				if t.Op == "var" && strings.HasSuffix(t.Name, "#len") {
					lens = append(lens, t)
				}
				for _, a := range t.Args {
					walk(a)
				}
			}
			for _, al := range ex.allocs {
				walk(al.C)
				walk(al.Cap)
			}
			for i, al := range ex.allocs {
				alts := []*Term{Le(al.Cap, IntLit(4096))}
				for _, l := range lens {
					alts = append(alts, Le(al.Cap, Add(Mul(IntLit(2), l), IntLit(64))))
				}
				c.Add(&Obligation{Name: fmt.Sprintf("%s/alloc-bounded-by-input#%d", grp, i), Group: grp, Common: common, Hyps: []*Term{al.C}, Goal: Or(alts...), Pos: al.Pos, Funcs: []string{name}, Bounded: bound})
			}
		}
		n := 0
		for _, s := range run.sites {
			if !needs[key{s.callee, s.param}] {
				continue
			}
			n++
			c.Add(&Obligation{Name: fmt.Sprintf("%s/callee-precondition/%s#%d/site%d", grp, s.callee, s.param, n), Group: grp, Common: common, Goal: Not(s.c), Pos: s.pos, Funcs: []string{name, s.callee}, Bounded: bound, Replay: c04Replay})
		}
		for _, n := range sortedNotes(ex) {
			if strings.Contains(n, "external") || strings.Contains(n, "opaque") {
				c.Notes = appendUnique(c.Notes, n)
			}
		}
		c.Add(&Obligation{Name: grp + "/returns", Group: grp, Common: common, Goal: TTrue, Pos: ex.pos(run.ex.pkg.Func("UnmarshalJSON").Pos()), Funcs: []string{name}, Bounded: bound})
	}
	for _, fn := range fns {
		fn := fn
		name := fnName(fn)
		guard(c, "C04/"+name, func() {
			emit("C04/"+name, name, c04Exec(w, fn, family, -1))
		})
		for i := range fn.Params {
			if run := nilRuns[key{name, i}]; run != nil {
				i := i
				grp := fmt.Sprintf("C04/%s/nil-arg%d", name, i)
				guard(c, grp, func() { emit(grp, name, run) })
			}
		}
	}
}

func c04Replay(map[string]string) string {
	return `package activitypub

import (
	"fmt"
	"testing"
)

func TestVerifReplay(t *testing.T) {
	inputs := [][]byte{nil, {}, []byte("\""), []byte("\"\""), []byte("\"a"), []byte("a\""), []byte("{"), []byte("{}"), []byte("[]"), []byte("[{}]"), []byte("null"), []byte("0"), []byte("\"x\""),
		[]byte("{\"type\":\"Note\",\"name\":{\"en\":1},\"content\":[1,2],\"to\":{\"to\":1},\"tag\":[null,1,\"x\",{}]}"), {0}, {0xff, 0xfe}, []byte("-"),
		[]byte("{\"type\":\"Person\",\"endpoints\":1,\"publicKey\":[],\"inbox\":[[[]]]}"), []byte("{\"type\":\"Create\",\"object\":{\"type\":\"Note\",\"object\":null},\"actor\":[\"\"]}")}
	type dec struct {
		name string
		f    func([]byte) error
	}
	var ds []dec
	add := func(name string, f func([]byte) error) { ds = append(ds, dec{name, f}) }
	add("UnmarshalJSON", func(b []byte) error { _, err := UnmarshalJSON(b); return err })
	add("GobDecode", func(b []byte) error { _, err := GobDecode(b); return err })
	add("NaturalLanguageValues.UnmarshalText", func(b []byte) error { var n NaturalLanguageValues; return n.UnmarshalText(b) })
	add("NaturalLanguageValues.UnmarshalJSON", func(b []byte) error { var n NaturalLanguageValues; return n.UnmarshalJSON(b) })
	add("NaturalLanguageValues.GobDecode", func(b []byte) error { var n NaturalLanguageValues; return n.GobDecode(b) })
	add("LangRefValue.UnmarshalText", func(b []byte) error { var n LangRefValue; return n.UnmarshalText(b) })
	add("LangRefValue.UnmarshalJSON", func(b []byte) error { var n LangRefValue; return n.UnmarshalJSON(b) })
	add("LangRef.UnmarshalText", func(b []byte) error { var n LangRef; return n.UnmarshalText(b) })
	add("Content.UnmarshalText", func(b []byte) error { var n Content; return n.UnmarshalText(b) })
	add("IRI.UnmarshalJSON", func(b []byte) error { var n IRI; return n.UnmarshalJSON(b) })
	add("IRIs.UnmarshalJSON", func(b []byte) error { var n IRIs; return n.UnmarshalJSON(b) })
	add("Object.UnmarshalJSON", func(b []byte) error { var n Object; return n.UnmarshalJSON(b) })
	add("Actor.UnmarshalJSON", func(b []byte) error { var n Actor; return n.UnmarshalJSON(b) })
	add("Activity.UnmarshalJSON", func(b []byte) error { var n Activity; return n.UnmarshalJSON(b) })
	add("Question.UnmarshalJSON", func(b []byte) error { var n Question; return n.UnmarshalJSON(b) })
	add("Link.UnmarshalJSON", func(b []byte) error { var n Link; return n.UnmarshalJSON(b) })
	add("Place.UnmarshalJSON", func(b []byte) error { var n Place; return n.UnmarshalJSON(b) })
	add("OrderedCollectionPage.UnmarshalJSON", func(b []byte) error { var n OrderedCollectionPage; return n.UnmarshalJSON(b) })
	add("PublicKey.UnmarshalJSON", func(b []byte) error { var n PublicKey; return n.UnmarshalJSON(b) })
	add("MimeType.UnmarshalJSON", func(b []byte) error { var n MimeType; return n.UnmarshalJSON(b) })
	add("Object.GobDecode", func(b []byte) error { var n Object; return n.GobDecode(b) })
	add("Actor.GobDecode", func(b []byte) error { var n Actor; return n.GobDecode(b) })
	add("Activity.GobDecode", func(b []byte) error { var n Activity; return n.GobDecode(b) })
	add("Link.GobDecode", func(b []byte) error { var n Link; return n.GobDecode(b) })
	add("IRI.GobDecode", func(b []byte) error { var n IRI; return n.GobDecode(b) })
	add("IRIs.GobDecode", func(b []byte) error { var n IRIs; return n.GobDecode(b) })
	add("Object.UnmarshalBinary", func(b []byte) error { var n Object; return n.UnmarshalBinary(b) })
	for _, d := range ds {
		for _, in := range inputs {
			func() {
				defer func() {
					if r := recover(); r != nil {
						t.Errorf("%s(%q) panicked: %v", d.name, in, fmt.Sprint(r))
					}
				}()
				_ = d.f(in)
			}()
		}
	}
}
`
}

// installAppendContracts: list operations proved on their own (C13, C19) are used by contract (no panic, receiver updated).
func installAppendContracts(ex *Exec) {
	for _, g := range []string{"(*ItemCollection).Append", "(*IRIs).Append", "(*NaturalLanguageValues).Append", "(*OrderedCollection).Append", "(*Collection).Append", "(*CollectionPage).Append", "(*OrderedCollectionPage).Append"} {
		g := g
		ex.hooks[g] = func(ex *Exec, st *State, f *ssa.Function, a []Value) (Value, bool) {
			if p, ok := a[0].(*PtrVal); ok {
				elem := f.Params[0].Type().Underlying().(*types.Pointer).Elem()
				ex.objSeq++
				ex.store(st, p, ex.symValue(elem, varNamer(fmt.Sprintf("appended!%d", ex.objSeq)), false), f.Pos())
			}
			return ex.freshResults(f.Signature, "app:"+g), true
		}
	}
}
