package main

import (
	"encoding/json"
	"fmt"
	"os"
	"runtime/debug"
	"runtime/pprof"
	"sort"
	"strings"
	"time"
)

type Driver func(w *World, c *Check)

var drivers = map[string]Driver{}

func usage() {
	fmt.Fprintln(os.Stderr, "usage: govc check <Cnn> [--tier quick|thorough] | govc replay <file> | govc list")
	os.Exit(2)
}

func main() {
	debug.SetGCPercent(400)
	if len(os.Args) < 2 {
		usage()
	}
	switch os.Args[1] {
	case "list":
		var ids []string
		for k := range drivers {
			ids = append(ids, k)
		}
		sort.Strings(ids)
		fmt.Println(strings.Join(ids, " "))
	case "check":
		if len(os.Args) < 3 {
			usage()
		}
		id := os.Args[2]
		tier := os.Getenv("VERIF_TIER")
		if tier == "" {
			tier = "quick"
		}
		for i := 3; i < len(os.Args); i++ {
			if os.Args[i] == "--tier" && i+1 < len(os.Args) {
				tier = os.Args[i+1]
				i++
			}
		}
		d, ok := drivers[id]
		if !ok {
			fmt.Fprintln(os.Stderr, "govc: no check for", id)
			os.Exit(2)
		}
		os.Exit(runCheck(id, tier, d))
	case "replay":
		if len(os.Args) < 3 {
			usage()
		}
		b, err := os.ReadFile(os.Args[2])
		if err != nil {
			fmt.Fprintln(os.Stderr, err)
			os.Exit(2)
		}
		var rec ReplayRec
		if err := json.Unmarshal(b, &rec); err != nil {
			fmt.Fprintln(os.Stderr, err)
			os.Exit(2)
		}
		fmt.Printf("obligation %s (%s)\n%s\n", rec.Obligation, rec.Status, rec.Note)
		if rec.GoTest == "" {
			fmt.Println("no replayable input stored; solver output:\n" + rec.SolverOut)
			os.Exit(1)
		}
		failed, out := runReplayTest(rec.GoTest)
		fmt.Println(out)
		if failed {
			fmt.Println("replay reproduces the violation")
			os.Exit(1)
		}
		fmt.Println("replay passes on the current tree")
	default:
		usage()
	}
}

func runCheck(id, tier string, d Driver) (code int) {
	if pf := os.Getenv("GOVC_PROF"); pf != "" {
		f, _ := os.Create(pf)
		pprof.StartCPUProfile(f)
		defer pprof.StopCPUProfile()
	}
	c := NewCheck(id, tier)
	w, err := LoadWorld()
	if err != nil {
		// the tree does not load/type-check: nothing can be verified
		fmt.Println("govc: cannot load /repo:", err)
		c.Add(&Obligation{Name: id + "/load", EngineErr: "cannot load or type-check the working tree: " + err.Error()})
		c.Run()
		return c.Finish()
	}
	d(w, c)
	c.Run()
	return c.Finish()
}

// guard runs f and converts "outside subset"/engine panics into an engine-error obligation.
func guard(c *Check, name string, f func()) {
	if flt := os.Getenv("GOVC_ONLY"); flt != "" && !strings.Contains(name, flt) && !strings.Contains(flt, name) {
		return // debugging aid
	}
	t0 := time.Now()
	defer func() {
		if os.Getenv("GOVC_TRACE") != "" {
			fmt.Fprintf(os.Stderr, "[trace] %-70s %6.2fs terms=%d\n", name, time.Since(t0).Seconds(), termSeq)
		}
	}()
	defer func() {
		if r := recover(); r != nil {
			msg := fmt.Sprint(r)
			if u, ok := r.(*Unsupported); ok {
				msg = u.Error()
			} else if os.Getenv("GOVC_DEBUG") != "" {
				panic(r)
			}
			c.Add(&Obligation{Name: name, EngineErr: msg})
		}
	}()
	f()
}
