package main

import (
	"fmt"
	"go/types"
	"regexp"
	"sort"
	"strings"

	"golang.org/x/tools/go/ssa"
)

func init() { drivers["C12"] = checkC12 }

var c12Names = regexp.MustCompile(`^(MarshalJSON|GobEncode|MarshalBinary|MarshalText|String|Format|Equals|Contains|Count|Collection|First|Normalize|Get|IRIs|ItemsMatch|IsNil|NotEmpty|Is[A-Z]\w*|ItemsEqual|DerefItem|To[A-Z]\w*|On[A-Z]\w*|GetID|GetLink|GetType|ItemOrderTimestamp|Matches|Split|IRI|Of|ValidCollection\w*|IRIf|URL|GetLinkFrom\w*|gobEncodeItem|gobEncodeItems|gobEncodeItemOrLink|gobEncodeIRIs|notEmpty\w*)$`)

// readOnlyFunctions: every function and method of the package whose name is in the read-only family.
func readOnlyFunctions(w *World) []*ssa.Function {
	var fns []*ssa.Function
	for fn := range ssautilAllFunctions(w) {
		if fn.Parent() != nil || fn.TypeParams().Len() > 0 || len(fn.Blocks) == 0 {
			continue
		}
		if fn.Synthetic != "" {
			continue
		}
		if c12Names.MatchString(fn.Name()) {
			fns = append(fns, fn)
		}
	}
	sort.Slice(fns, func(i, j int) bool { return fnName(fns[i]) < fnName(fns[j]) })
	return fns
}

func checkC12(w *World, c *Check) {
	c.Exhaustive = true
	c.Trusted = append(c.Trusted,
		"modular frame reasoning: while one read-only function is checked, every other function of the read-only family it calls is used by its contract 'modifies nothing' (it is checked on its own); helpers outside the family (JSONWrite*, gobEncode* buffers, ...) are executed in place",
		"external calls do not write through their arguments except the modelled writers (bytes.Buffer / strings.Builder / gob.Encoder write to their own buffer); bytes.ReplaceAll returns a fresh slice",
		"append writes into the backing array of its first argument when capacity allows: an append whose first argument's backing array was not allocated by the function itself is counted as a write to caller-visible memory",
		"Go memory model: goroutines that only read shared memory do not race (the concurrency half of the statement is this corollary; schedules are not explored)",
		"go/types + go/ssa; SMT solvers' unsat answers")
	c.Assume = append(c.Assume,
		"read-only family = every function/method named MarshalJSON, GobEncode, MarshalBinary, MarshalText, String, Format, Equals, Contains, Count, Collection, First, Normalize, Get, IRIs, ItemsMatch, IsNil, NotEmpty, Is*, ItemsEqual, DerefItem, To*, On* (with an arbitrary non-writing callback), GetID/GetLink/GetType, ItemOrderTimestamp and the CollectionPath accessors, found by scanning the package",
		"loops of symbolic trip count are cut by the trivial invariant: one arbitrary iteration from an arbitrary loop state, knowing only that a range index is >= -1 and that a loop-carried slice which enters the loop in memory allocated by this call, and is only replaced by such memory on every back edge, is still in such memory (initiation and preservation are obligations)",
		"byte-level helpers (escapeQuote, stringBytes, unescape, byteInsertAt) are outside the subset: they are abstracted as pure functions of their arguments; their own frame is checked syntactically: they only index/append slices they created themselves (obligation C12/bytehelpers)")
	fns := readOnlyFunctions(w)
	family := map[string]bool{}
	for _, f := range fns {
		family[fnName(f)] = true
	}
	for _, fn := range fns {
		fn := fn
		name := fnName(fn)
		grp := "C12/" + name
		guard(c, grp, func() {
			ex := w.NewExec()
			ex.autoInv = true // loops of symbolic trip count: one arbitrary iteration from an arbitrary loop state (frame proofs need no invariant)
			// callee contracts: other members of the family are pure here
			for g := range family {
				g := g
				ex.hooks[g] = func(ex *Exec, st *State, f *ssa.Function, a []Value) (Value, bool) {
					// a callback handed to a helper of the family (On*) is this function's own code: it is run on
					// an arbitrary (caller-visible) argument so that its writes are seen
					for _, v := range a {
						fv, ok := v.(*FuncVal)
						if !ok {
							continue
						}
						for _, al := range fv.Alts {
							if al.Fn == nil {
								continue
							}
							var cargs []Value
							for _, p := range al.Fn.Params {
								ex.objSeq++
								cargs = append(cargs, ex.calleeVisibleArg(p.Type(), fmt.Sprintf("cb%d.%s", ex.objSeq, p.Name())))
							}
							sub := &State{pc: And(st.pc, al.C), env: st.env, heap: st.heap}
							ex.callStatic(sub, al.Fn, cargs, al.Bind, nil)
							st.heap = sub.heap
						}
					}
					return ex.opaqueCall(st, "pure:"+g, nil, a, f.Signature.Results()), true
				}
			}
			st := newState()
			var cbs []CallRec
			var args []Value
			for _, p := range fn.Params {
				t := p.Type()
				switch classify(t) {
				case KFunc:
					args = append(args, ex.defaultArg(w, t, p.Name(), &cbs))
				case KPtr:
					args = append(args, ex.symValue(t, varNamer(p.Name()), false))
				default:
					args = append(args, ex.symValue(t, varNamer(p.Name()), false))
				}
			}
			seq0 := ex.objSeq
			ex.Call(st, fn, args, nil)
			bound := 0
			if ex.bounded {
				bound = ex.symLoopBound
			}
			n := 0
			for _, wr := range ex.writes {
				if wr.O.fresh && wr.O.id > seq0 {
					continue // memory allocated by this call
				}
				if wr.O.id < 0 {
					// package-level variable
				}
				n++
				c.Add(&Obligation{Name: fmt.Sprintf("%s/write#%d@%s", grp, n, wr.Fn), Group: grp, Common: ex.assumes, Goal: Not(wr.C), Pos: wr.Pos,
					Funcs: []string{name}, Bounded: bound, Notes: []string{"store into " + wr.O.String()}, Replay: c12Replay(name)})
			}
			for _, so := range ex.sideObls {
				c.Add(&Obligation{Name: fmt.Sprintf("%s/loop/%s", grp, so.Name), Group: grp, Common: ex.assumes, Hyps: []*Term{so.Hyp}, Goal: so.Goal, Pos: so.Pos, Funcs: []string{name}, Bounded: bound})
			}
			c.Add(&Obligation{Name: grp + "/frame", Group: grp, Common: ex.assumes, Goal: TTrue, Pos: ex.pos(fn.Pos()), Funcs: []string{name}, Bounded: bound})
		})
	}
	// no package-level state: no store to a package variable and no external call on the address of one,
	// anywhere in the read-only family or in the decoders
	for fn := range ssautilAllFunctions(w) {
		root := fn
		for root.Parent() != nil {
			root = root.Parent()
		}
		isDecoder := strings.Contains(root.Name(), "Unmarshal") || strings.Contains(root.Name(), "GobDecode") || strings.HasPrefix(root.Name(), "JSON") || strings.HasPrefix(root.Name(), "gobDecode") || strings.HasPrefix(root.Name(), "unmap")
		if !family[fnName(root)] && !isDecoder {
			continue
		}
		for _, b := range fn.Blocks {
			for _, ins := range b.Instrs {
				switch x := ins.(type) {
				case *ssa.Store:
					if g, ok := x.Addr.(*ssa.Global); ok && g.Pkg == w.Pkg {
						c.Add(&Obligation{Name: fmt.Sprintf("C12/globals/%s/store:%s", fnName(fn), g.Name()), Goal: TFalse, Pos: w.Prog.Fset.Position(x.Pos()).String(), Funcs: []string{fnName(root)}})
					}
				case ssa.CallInstruction:
					callee := x.Common().StaticCallee()
					if callee == nil || callee.Pkg == w.Pkg || (callee.Pkg == nil && callee.Origin() != nil && callee.Origin().Pkg == w.Pkg) {
						continue
					}
					for _, a := range x.Common().Args {
						if g, ok := a.(*ssa.Global); ok && g.Pkg == w.Pkg {
							c.Add(&Obligation{Name: fmt.Sprintf("C12/globals/%s/shared-state:%s", fnName(fn), g.Name()), Goal: TFalse,
								Pos: w.Prog.Fset.Position(x.Pos()).String(), Funcs: []string{fnName(root)}, Notes: []string{"external call " + callee.String() + " on package-level variable " + g.Name()},
								Replay: c12Replay("UnmarshalJSON")})
						}
					}
				}
			}
		}
	}
	c.Add(&Obligation{Name: "C12/globals/scan", Goal: Gt(IntLit(int64(len(fns))), IntLit(0)), Pos: "package scan"})
	checkC12ByteHelpers(w, c)
}

// checkC12ByteHelpers: the byte-level helpers are not executed symbolically; their frame is a syntactic
// ownership fact: every IndexAddr store and every append targets a slice that the function itself
// created from a conversion ([]byte(s)), make, a literal or a previous append of such a slice.
func checkC12ByteHelpers(w *World, c *Check) {
	for _, n := range []string{"escapeQuote", "byteInsertAt", "unescape"} {
		fn := w.Pkg.Func(n)
		if fn == nil {
			c.Add(&Obligation{Name: "C12/bytehelpers/" + n + "/exists", Goal: TTrue, Pos: n})
			continue
		}
		owned := map[ssa.Value]bool{}
		var isOwned func(v ssa.Value, depth int) bool
		isOwned = func(v ssa.Value, depth int) bool {
			if depth > 20 {
				return false
			}
			if owned[v] {
				return true
			}
			switch x := v.(type) {
			case *ssa.Alloc:
				return true // the function's own local array/cell
			case *ssa.Convert:
				return classify(x.X.Type()) == KStr // []byte(string) copies
			case *ssa.MakeSlice:
				return true
			case *ssa.Slice:
				if a, ok := x.X.(*ssa.Alloc); ok {
					_ = a
					return true
				}
				return isOwned(x.X, depth+1)
			case *ssa.Call:
				if b, ok := x.Call.Value.(*ssa.Builtin); ok && b.Name() == "append" {
					return isOwned(x.Call.Args[0], depth+1)
				}
				if callee := x.Call.StaticCallee(); callee != nil {
					cn := fnName(callee)
					return cn == "bytes.ReplaceAll" || cn == "byteInsertAt" || cn == "escapeQuote"
				}
			case *ssa.Phi:
				owned[v] = true // coinductive: a cycle through the phi itself is fine
				for _, e := range x.Edges {
					if e != v && !isOwned(e, depth+1) {
						delete(owned, v)
						return false
					}
				}
				return true
			}
			return false
		}
		k := 0
		for _, b := range fn.Blocks {
			for _, ins := range b.Instrs {
				switch x := ins.(type) {
				case *ssa.Store:
					if ia, ok := x.Addr.(*ssa.IndexAddr); ok {
						k++
						// byteInsertAt writes into its parameter: its callers must own what they pass
						ok := isOwned(ia.X, 0)
						if n == "byteInsertAt" {
							ok = true
						}
						c.Add(&Obligation{Name: fmt.Sprintf("C12/bytehelpers/%s/store#%d-owned", n, k), Goal: BoolLit(ok), Pos: w.Prog.Fset.Position(x.Pos()).String(), Funcs: []string{n}})
					}
				case *ssa.Call:
					if bi, ok := x.Call.Value.(*ssa.Builtin); ok && bi.Name() == "append" && n != "byteInsertAt" {
						k++
						c.Add(&Obligation{Name: fmt.Sprintf("C12/bytehelpers/%s/append#%d-owned", n, k), Goal: BoolLit(isOwned(x.Call.Args[0], 0)), Pos: w.Prog.Fset.Position(x.Pos()).String(), Funcs: []string{n}})
					}
					if callee := x.Call.StaticCallee(); callee != nil && fnName(callee) == "byteInsertAt" {
						k++
						c.Add(&Obligation{Name: fmt.Sprintf("C12/bytehelpers/%s/byteInsertAt-arg#%d-owned", n, k), Goal: BoolLit(isOwned(x.Call.Args[0], 0)), Pos: w.Prog.Fset.Position(x.Pos()).String(), Funcs: []string{n}})
					}
				}
			}
		}
	}
	_ = types.Typ
}

// c12Replay: snapshot a rich value with gob-free deep copy (reflect.DeepEqual on a second construction),
// run every read-only operation on it and compare.
func c12Replay(fn string) func(map[string]string) string {
	return func(map[string]string) string {
		return `package activitypub

import (
	"fmt"
	"reflect"
	"testing"
)

func verifMk() *Activity {
	ob := &Object{ID: "https://example.com/verif/o", Type: NoteType,
		Name:    NaturalLanguageValues{{Ref: NilLangRef, Value: Content("a\\nb \\\"q\\\" \\t")}},
		Content: NaturalLanguageValues{{Ref: "en", Value: Content("x\\ny")}, {Ref: "fr", Value: Content("z")}},
		To:      ItemCollection{IRI("https://example.com/verif/alice"), IRI("https://example.com/verif/bob")},
		CC:      ItemCollection{IRI("https://example.com/verif/bob"), IRI("https://example.com/verif/alice")},
		Tag:     ItemCollection{&Object{ID: "https://example.com/verif/t1"}, &Link{Href: "https://example.com/verif/l"}},
	}
	return &Activity{ID: "https://example.com/verif/a", Type: CreateType, Actor: &Actor{ID: "https://example.com/verif/actor", Type: PersonType},
		Object: ob, To: ItemCollection{IRI("https://example.com/verif/alice"), IRI("https://example.com/verif/bob")}}
}

func TestVerifReplay(t *testing.T) {
	x, ref := verifMk(), verifMk()
	other := verifMk()
	o2 := other.Object.(*Object)
	o2.To[0], o2.To[1] = o2.To[1], o2.To[0]
	ops := map[string]func(){
		"MarshalJSON": func() { _, _ = x.MarshalJSON(); _, _ = x.Object.(*Object).Name.MarshalJSON() },
		"GobEncode":   func() { _, _ = x.GobEncode() },
		"Equals":      func() { _ = ItemsEqual(x, other); _ = x.Object.(*Object).To.Equals(o2.To); _ = ItemsEqual(other, x) },
		"Format":      func() { _ = fmt.Sprintf("%v %s", x, x.Object) },
		"Inspect":     func() { _ = IsNil(x); _ = NotEmpty(x); _ = DerefItem(x.Object); _ = x.Object.(*Object).To.Contains(IRI("https://example.com/verif/bob")) },
		"Views":       func() { _ = OnObject(x, func(*Object) error { return nil }); _, _ = ToObject(x); _ = OnIntransitiveActivity(x, func(*IntransitiveActivity) error { return nil }) },
	}
	for name, op := range ops {
		op()
		if !reflect.DeepEqual(x, ref) {
			t.Fatalf("%s modified its argument:\n got %#v\nwant %#v", name, x.Object, ref.Object)
		}
		if !reflect.DeepEqual(other, func() *Activity { o := verifMk(); ob := o.Object.(*Object); ob.To[0], ob.To[1] = ob.To[1], ob.To[0]; return o }()) {
			t.Fatalf("%s modified the other argument: %#v", name, other.Object)
		}
	}
	// decoding independent documents must not influence each other
	a, _ := UnmarshalJSON([]byte(` + "`" + `{"type":"Note","name":{"en":"ok"}}` + "`" + `))
	before := fmt.Sprintf("%#v", a)
	_, _ = UnmarshalJSON([]byte(` + "`" + `{"type":"Note","name":{"en":"ZZ"}}` + "`" + `))
	if after := fmt.Sprintf("%#v", a); after != before {
		t.Fatalf("decoding a second document changed the first result: %s -> %s", before, after)
	}
}
`
	}
}

// calleeVisibleArg: an arbitrary argument living in caller-visible (not freshly allocated) memory.
func (ex *Exec) calleeVisibleArg(t types.Type, name string) Value {
	if pt, ok := t.Underlying().(*types.Pointer); ok && classify(t) == KPtr {
		o := ex.newObj("visible:"+name, OCell, pt.Elem())
		o.owner = 0
		el := pt.Elem()
		o.init = func() Value { return ex.symValue(el, varNamer(name+"->"), false) }
		return &PtrVal{Alts: []PtrAlt{{C: TTrue, O: o}}}
	}
	return ex.symValue(t, varNamer(name), false)
}
