package main

import (
	"fmt"
	"go/types"
	"strings"

	"golang.org/x/tools/go/ssa"
)

func init() { drivers["C19"] = checkC19 }

// lookupFn resolves a contract name such as "(NaturalLanguageValues).Get", "(*IRIs).Append" or "Flatten".
func (w *World) lookupFn(name string) *ssa.Function {
	if strings.HasPrefix(name, "(") {
		i := strings.Index(name, ").")
		return w.Method(name[1:i], name[i+2:])
	}
	return w.Func(name)
}

type contractRun struct {
	ex     *Exec
	st     *State
	pre    *State
	fn     *ssa.Function
	params []Value
	result Value
}

// symbolicArgs: unconstrained arguments; pointer parameters are non-nil pointers to symbolic values.
func (ex *Exec) symbolicArgs(fn *ssa.Function) []Value {
	var args []Value
	for _, p := range fn.Params {
		t := p.Type()
		if _, ok := t.Underlying().(*types.Pointer); ok && classify(t) == KPtr {
			var cbs []CallRec
			args = append(args, ex.defaultArg(nil, t, p.Name(), &cbs))
			continue
		}
		args = append(args, ex.symValue(t, varNamer(p.Name()), false))
	}
	return args
}

// verifyContract executes fn on symbolic arguments with its loops cut by their invariants, and adds:
// one obligation per ensures clause, per loop-invariant initiation/preservation, and per potential panic.
func verifyContract(w *World, c *Check, cs *Contracts, prop, name string, loopsOf []string, extraPre func(r *contractRun) []*Term, setup ...func(ex *Exec)) *contractRun {
	var run *contractRun
	guard(c, prop+"/"+name, func() {
		fs := cs.Funcs[name]
		if fs == nil {
			panic(unsupported("no contract for " + name + " in contracts_verif.go"))
		}
		ex := w.NewExec()
		ex.UseLoops(cs, append([]string{name}, loopsOf...)...)
		for _, f := range setup {
			f(ex)
		}
		st := newState()
		fn := w.lookupFn(name)
		args := ex.symbolicArgs(fn)
		pre := st.clone()
		r := &contractRun{ex: ex, st: st, pre: pre, fn: fn, params: args}
		// requires
		ctx0 := &EvalCtx{ex: ex, st: pre, old: pre, fn: fn, params: args, vars: map[string]Value{}}
		var reqs []*Term
		for _, e := range fs.Requires {
			reqs = append(reqs, ctx0.term(e))
		}
		if extraPre != nil {
			reqs = append(reqs, extraPre(r)...)
		}
		st.pc = And(reqs...)
		r.result = ex.Call(st, fn, args, nil)
		vars := map[string]Value{"result": r.result}
		if tv, ok := r.result.(*TupleVal); ok {
			for i, v := range tv.V {
				vars[fmt.Sprintf("result%d", i)] = v
			}
		}
		ctx := &EvalCtx{ex: ex, st: st, old: pre, fn: fn, params: args, vars: vars}
		grp := prop + "/" + name
		common := append(append([]*Term{}, reqs...), ex.assumes...)
		bound := 0
		if ex.bounded {
			bound = ex.symLoopBound
		}
		pos := ex.pos(fn.Pos())
		for i, e := range fs.Ensures {
			c.Add(&Obligation{Name: fmt.Sprintf("%s/ensures#%d", grp, i), Group: grp, Common: common, Hyps: []*Term{ex.NoPanic(), st.pc},
				Goal: ctx.term(e), Pos: pos, Funcs: []string{name}, Bounded: bound, Notes: []string{e.String()}})
		}
		for _, so := range ex.sideObls {
			c.Add(&Obligation{Name: fmt.Sprintf("%s/loop/%s", prop, so.Name), Group: grp, Common: common, Hyps: []*Term{so.Hyp}, Goal: so.Goal, Pos: so.Pos, Funcs: []string{name}, Bounded: bound})
		}
		for i, p := range ex.panics {
			c.Add(&Obligation{Name: fmt.Sprintf("%s/nopanic/%s@%s#%d", grp, p.Kind, p.Fn, i), Group: grp, Common: common, Goal: Not(p.C), Pos: p.Pos, Funcs: []string{name}, Bounded: bound})
		}
		// vacuity: the precondition and the normal exit are reachable
		c.Add(&Obligation{Name: grp + "/cover/returns", Group: grp, ExpectSat: true, Common: common, Goal: And(ex.NoPanic(), st.pc)})
		for _, n := range sortedNotes(ex) {
			c.Notes = appendUnique(c.Notes, n)
		}
		run = r
	})
	if prop == "C19" {
		for _, o := range c.Obls {
			if strings.HasPrefix(o.Name, "C19/") && o.Replay == nil && !o.ExpectSat {
				o.Replay = c19Replay
			}
		}
	}
	return run
}

func checkC19(w *World, c *Check) {
	c.Trusted = append(c.Trusted,
		"append(s, x) yields a sequence equal to s followed by x (capacity/aliasing of the backing array is not modelled)",
		"bytes.Equal is equality of contents (nil and empty equal)",
		"go/types + go/ssa (x/tools v0.29.0); SMT solvers' unsat answers (quantified goals: z3/cvc5 instantiation)")
	c.Assume = append(c.Assume,
		"contracts (ensures, loop invariants) are read from /repo/contracts_verif.go; every loop in these functions is cut by its invariant, so the results hold for lists of any length",
		"receivers of pointer methods are non-nil",
		"Equals is specified for lists without repeated tags (the statement's domain)")
	cs, err := LoadContracts()
	if err != nil {
		c.Add(&Obligation{Name: "C19/contracts", EngineErr: "cannot read contracts: " + err.Error()})
		return
	}
	for _, n := range []string{"(NaturalLanguageValues).Get", "(*NaturalLanguageValues).Set", "(*NaturalLanguageValues).Append",
		"(*NaturalLanguageValues).Add", "(*NaturalLanguageValues).Count", "(NaturalLanguageValues).First", "(NaturalLanguageValues).Equals"} {
		verifyContract(w, c, cs, "C19", n, []string{"(*NaturalLanguageValues).Count"}, nil)
	}
	// the statement's laws, by running the real operations in sequence (loops cut by invariants)
	guard(c, "C19/laws", func() {
		ex := w.NewExec()
		ex.UseLoops(cs, "(NaturalLanguageValues).Get", "(*NaturalLanguageValues).Set")
		st := newState()
		nlvT := w.Type("NaturalLanguageValues")
		cell := ex.newObj("n", OCell, nlvT)
		cell.owner = 0
		n0 := ex.symValue(nlvT, varNamer("n"), false)
		cell.init = func() Value { return n0 }
		np := &PtrVal{Alts: []PtrAlt{{C: TTrue, O: cell}}}
		ref, other, v := Var("ref", SStr), Var("other", SStr), Var("v", SBytes)
		get := w.lookupFn("(NaturalLanguageValues).Get")
		set := w.lookupFn("(*NaturalLanguageValues).Set")
		before := ex.Call(st, get, []Value{n0, other}, nil).(*Term)
		len0 := sliceLen(n0.(*SliceVal))
		ex.Call(st, set, []Value{np, ref, v}, nil)
		n1 := ex.heapGet(st, cell)
		afterSame := ex.Call(st, get, []Value{n1, ref}, nil).(*Term)
		afterOther := ex.Call(st, get, []Value{n1, other}, nil).(*Term)
		len1 := sliceLen(n1.(*SliceVal))
		common := append([]*Term{ex.NoPanic(), st.pc}, ex.assumes...)
		for _, so := range ex.sideObls {
			c.Add(&Obligation{Name: "C19/laws/loop/" + so.Name, Group: "C19/laws", Common: ex.assumes, Hyps: []*Term{so.Hyp}, Goal: so.Goal, Pos: so.Pos})
		}
		el := func(s Value, k int64, f int) *Term {
			return ex.readElem(st, s.(*SliceVal), IntLit(k)).(*StructVal).F[f].(*Term)
		}
		wit := []Witness{{"len0", len0}, {"len1", len1}, {"ref0_is_ref", Eq(el(n0, 0, 0), ref)}, {"ref1_is_ref", Eq(el(n0, 1, 0), ref)},
			{"new_ref0_is_ref", Eq(el(n1, 0, 0), ref)}, {"new_ref1_is_ref", Eq(el(n1, 1, 0), ref)},
			{"new_val0_is_v", Eq(el(n1, 0, 1), v)}, {"new_val1_is_v", Eq(el(n1, 1, 1), v)}, {"after_is_nil", Eq(afterSame, BytesNil)},
			{"after_is_val0", Eq(afterSame, el(n1, 0, 1))}, {"after_is_val1", Eq(afterSame, el(n1, 1, 1))}}
		add := func(name string, hyps []*Term, goal *Term) {
			c.Add(&Obligation{Name: "C19/laws/" + name, Group: "C19/laws", Common: common, Hyps: hyps, Goal: goal, Pos: "Set;Get on the real code", Witnesses: wit,
				Funcs: []string{"(NaturalLanguageValues).Get", "(*NaturalLanguageValues).Set"}})
		}
		{
			j := FreshBound("j", SInt)
			elj := func(sv Value, f int) *Term { return ex.readElem(st, sv.(*SliceVal), j).(*StructVal).F[f].(*Term) }
			add("set-stores-the-pair", nil, Exists([]*Term{j}, And(Le(IntLit(0), j), Lt(j, len1), Eq(elj(n1, 0), ref), Eq(elj(n1, 1), v))))
			k := FreshBound("k", SInt)
			elk := func(sv Value, f int) *Term { return ex.readElem(st, sv.(*SliceVal), k).(*StructVal).F[f].(*Term) }
			add("get-returns-first-match", nil, Or(
				And(Forall([]*Term{k}, Implies(And(Le(IntLit(0), k), Lt(k, len1)), Neq(elk(n1, 0), ref))), Eq(afterSame, BytesNil)),
				Exists([]*Term{j}, And(Le(IntLit(0), j), Lt(j, len1), Eq(elj(n1, 0), ref), Eq(afterSame, elj(n1, 1)),
					Forall([]*Term{k}, Implies(And(Le(IntLit(0), k), Lt(k, j)), Neq(elk(n1, 0), ref)))))))
			add("set-updates-every-entry-of-the-tag", nil, Forall([]*Term{k}, Implies(And(Le(IntLit(0), k), Lt(k, len1), Eq(elk(n1, 0), ref)), Eq(elk(n1, 1), v))))
		}
		add("get-after-set", nil, Eq(afterSame, v))
		add("set-leaves-other-tags", []*Term{Neq(other, ref)}, Eq(afterOther, before))
		add("set-grows-by-at-most-one", nil, Or(Eq(len1, len0), Eq(len1, Add(len0, IntLit(1)))))
		for _, o := range c.Obls {
			if strings.HasPrefix(o.Name, "C19/") && o.Replay == nil && !o.ExpectSat {
				o.Replay = c19Replay
			}
		}
		c.Add(&Obligation{Name: "C19/laws/cover", Group: "C19/laws", ExpectSat: true, Common: common, Goal: And(Gt(len0, IntLit(1)), Neq(other, ref))})
	})
}

// c19Replay: no witness values are available for quantified obligations; the replay searches small
// lists (length <= 3 over two tags and the nil tag) on the real code against the reference ordered
// map and fails on the first discrepancy.
const c19ReplaySrc = `package activitypub

import (
	"bytes"
	"testing"
)

func TestVerifReplay(t *testing.T) {
	tags := []LangRef{NilLangRef, "en", "fr"}
	texts := []Content{nil, Content(""), Content("a"), Content("b")}
	var lists []NaturalLanguageValues
	var gen func(cur NaturalLanguageValues, n int)
	gen = func(cur NaturalLanguageValues, n int) {
		cp := append(NaturalLanguageValues{}, cur...)
		lists = append(lists, cp)
		if n == 0 {
			return
		}
		for _, tg := range tags {
			for _, tx := range texts[1:] {
				gen(append(cp, LangRefValue{Ref: tg, Value: tx}), n-1)
			}
		}
	}
	gen(nil, 3)
	refGet := func(l NaturalLanguageValues, tg LangRef) Content {
		for _, e := range l {
			if e.Ref == tg {
				return e.Value
			}
		}
		return nil
	}
	distinctTags := func(l NaturalLanguageValues) bool {
		seen := map[LangRef]bool{}
		for _, e := range l {
			if seen[e.Ref] {
				return false
			}
			seen[e.Ref] = true
		}
		return true
	}
	same := func(a, b NaturalLanguageValues) bool {
		if len(a) != len(b) {
			return false
		}
		for _, x := range a {
			ok := false
			for _, y := range b {
				if x.Ref == y.Ref && bytes.Equal(x.Value, y.Value) {
					ok = true
				}
			}
			if !ok {
				return false
			}
		}
		return true
	}
	for _, l := range lists {
		if int(l.Count()) != len(l) {
			t.Fatalf("Count() = %d for a list of %d entries: %v", l.Count(), len(l), l)
		}
		roomy := make(NaturalLanguageValues, len(l), len(l)+5)
		copy(roomy, l)
		if int(roomy.Count()) != len(l) {
			t.Fatalf("Count() = %d for a list of %d entries with spare capacity: %v", roomy.Count(), len(l), l)
		}
		if len(l) > 0 && (l.First().Ref != l[0].Ref || !bytes.Equal(l.First().Value, l[0].Value)) {
			t.Fatalf("First() = %v for %v", l.First(), l)
		}
		for _, tg := range tags {
			if got, want := l.Get(tg), refGet(l, tg); !bytes.Equal(got, want) || (got == nil) != (want == nil) {
				t.Fatalf("Get(%q) = %q on %v, first entry with that tag holds %q", tg, got, l, want)
			}
			for _, tx := range texts {
				c := append(NaturalLanguageValues{}, l...)
				_ = c.Set(tg, tx)
				if !bytes.Equal(c.Get(tg), tx) && refGet(l, tg) == nil || len(c) > len(l)+1 || len(c) < len(l) {
					t.Fatalf("after Set(%q,%q) on %v: %v", tg, tx, l, c)
				}
				if refGet(l, tg) != nil && !bytes.Equal(c.Get(tg), tx) {
					t.Fatalf("after Set(%q,%q) on %v: Get returns %q", tg, tx, l, c.Get(tg))
				}
				for i := range l {
					if c[i].Ref != l[i].Ref || (l[i].Ref != tg && !bytes.Equal(c[i].Value, l[i].Value)) {
						t.Fatalf("Set(%q,%q) on %v disturbed entry %d: %v", tg, tx, l, i, c)
					}
				}
				d := append(NaturalLanguageValues{}, l...)
				_ = d.Append(tg, tx)
				e := append(NaturalLanguageValues{}, l...)
				e.Add(LangRefValue{Ref: tg, Value: tx})
				for _, x := range []NaturalLanguageValues{d, e} {
					if len(x) != len(l)+1 || x[len(l)].Ref != tg || !bytes.Equal(x[len(l)].Value, tx) {
						t.Fatalf("Append/Add(%q,%q) on %v gives %v", tg, tx, l, x)
					}
				}
			}
		}
	}
	for _, a := range lists {
		if !distinctTags(a) || len(a) > 2 {
			continue
		}
		for _, b := range lists {
			if !distinctTags(b) || len(b) > 2 {
				continue
			}
			if got, want := a.Equals(b), same(a, b); got != want {
				t.Fatalf("%v.Equals(%v) = %v, same tag/text pairs: %v", a, b, got, want)
			}
		}
	}
}
`

func c19Replay(map[string]string) string { return c19ReplaySrc }
