package main

import (
	"fmt"
	"go/types"
	"strings"

	"golang.org/x/tools/go/ssa"
)

func init() { drivers["C10"] = checkC10 }

var c10Types = []string{"Object", "Place", "Profile", "Relationship", "Tombstone", "Actor", "Activity", "IntransitiveActivity", "Question",
	"Collection", "CollectionPage", "OrderedCollection", "OrderedCollectionPage"}

func checkC10(w *World, c *Check) {
	c.Trusted = append(c.Trusted,
		"callee contract at the call sites verified here: ItemCollectionDeduplication(l1..ln) de-duplicates the lists it is handed, in the order handed (its three-loop algorithm is NOT proved by this check, see level note)",
		"IRI.Equals is the relation iriEq (C14); an entry's id is its GetID answer; C08 views; go/types + go/ssa; SMT solvers' unsat answers")
	c.Assume = append(c.Assume,
		"wiring: which lists, in which order, reach the de-duplication, and when the Block removal runs — proved for all 13 addressable struct types",
		"Block removal: removeFromCollection is proved with loop invariants for lists and item lists of any length; entries are non-nil items (a nil entry in an addressing list of a Block activity is a recorded finding/fix)")
	cs, err := LoadContracts()
	if err != nil {
		c.Add(&Obligation{Name: "C10/contracts", EngineErr: "cannot read contracts: " + err.Error()})
		return
	}
	for _, n := range c10Types {
		n := n
		grp := "C10/(*" + n + ").Recipients"
		guard(c, grp, func() {
			ex := w.NewExec()
			var dedupArgs []Value
			var dedupC *Term = TFalse
			var dedupRes Value
			var rfaC *Term = TFalse
			var rfaAtDedup *Term
			ex.hooks["ItemCollectionDeduplication"] = func(ex *Exec, st *State, f *ssa.Function, a []Value) (Value, bool) {
				dedupArgs = append(dedupArgs, a[0])
				dedupC = Or(dedupC, st.pc)
				rfaAtDedup = rfaC
				dedupRes = ex.symValue(f.Signature.Results().At(0).Type(), varNamer("dedup"), false)
				return dedupRes, true
			}
			var rfaItems Value
			ex.hooks["removeFromAudience"] = func(ex *Exec, st *State, f *ssa.Function, a []Value) (Value, bool) {
				rfaC = Or(rfaC, st.pc)
				rfaItems = a[1]
				// its effect (verified on its own below): the five addressing lists are replaced by filtered ones
				if p, ok := a[0].(*PtrVal); ok {
					AT := w.Type("Activity")
					for _, fname := range []string{"To", "Bto", "CC", "BCC", "Audience"} {
						fp := &PtrVal{}
						for _, al := range p.Alts {
							if al.O != nil {
								fp.Alts = append(fp.Alts, PtrAlt{C: al.C, O: al.O, Path: append(append([]PathElem{}, al.Path...), PathElem{Field: fieldIndex(AT, fname)})})
							}
						}
						ex.objSeq++
						ex.store(st, fp, ex.symValue(w.Type("ItemCollection"), varNamer(fmt.Sprintf("filtered.%s!%d", fname, ex.objSeq)), false), f.Pos())
					}
				}
				return ErrNil, true
			}
			st := newState()
			T := w.Type("*" + n)
			S := w.Type(n)
			_, obj, sv := ex.symItemOfType(T, "x")
			ptr := &PtrVal{Alts: []PtrAlt{{C: TTrue, O: obj}}}
			fn := w.Method("*"+n, "Recipients")
			ret := ex.Call(st, fn, []Value{ptr}, nil)
			common := append([]*Term{ex.NoPanic()}, ex.assumes...)
			pos := ex.pos(fn.Pos())
			fns := []string{"(*" + n + ").Recipients"}
			rp := c10Replay(n)
			if rs, ok := ret.(*SliceVal); ok && dedupRes != nil {
				// what Recipients hands back is the de-duplicated list, nothing else
				c.Add(&Obligation{Name: grp + "/wiring/returns-the-deduplicated-list", Group: grp, Common: common, Goal: ex.sliceIdentical(rs, dedupRes.(*SliceVal)), Pos: pos, Funcs: fns, Replay: rp})
			} else {
				c.Add(&Obligation{Name: grp + "/wiring/returns-the-deduplicated-list", Goal: TFalse, Pos: pos, Funcs: fns, Replay: rp})
			}
			if len(dedupArgs) != 1 {
				c.Add(&Obligation{Name: grp + "/wiring/one-dedup-call", Goal: BoolLit(len(dedupArgs) == 1), Pos: pos, Funcs: fns, Replay: rp})
				return
			}
			c.Add(&Obligation{Name: grp + "/wiring/dedup-always", Group: grp, Common: common, Goal: dedupC, Pos: pos, Funcs: fns, Replay: rp})
			lists := dedupArgs[0].(*SliceVal)
			want := []string{"To", "CC", "Bto", "BCC"}
			withActor := n == "IntransitiveActivity" || n == "Question"
			total := len(want) + 1
			if withActor {
				total++
			}
			nl, _ := sliceLen(lists).IntVal()
			c.Add(&Obligation{Name: grp + "/wiring/count", Group: grp, Common: common, Goal: BoolLit(int(nl) == total), Pos: pos, Funcs: fns, Replay: rp})
			if int(nl) != total {
				return
			}
			for k, f := range want {
				p := ex.readElem(st, lists, IntLit(int64(k))).(*PtrVal)
				wantP := &PtrVal{Alts: []PtrAlt{{C: TTrue, O: obj, Path: []PathElem{{Field: fieldIndex(S, f)}}}}}
				c.Add(&Obligation{Name: fmt.Sprintf("%s/wiring/arg%d=&%s", grp, k, f), Group: grp, Common: common, Goal: ex.ptrEq(p, wantP), Pos: pos, Funcs: fns, Replay: rp})
			}
			k := len(want)
			if withActor {
				p := ex.readElem(st, lists, IntLit(int64(k))).(*PtrVal)
				cell := ex.load(st.clone(), p, nil, 0).(*SliceVal)
				el := ex.readElem(st, cell, IntLit(0)).(*IfaceVal)
				goal := And(Eq(sliceLen(cell), IntLit(1)), Eq(ex.abstractItem(el), ex.abstractItem(sv.F[fieldIndex(S, "Actor")].(*IfaceVal))),
					Not(ex.ptrEq(p, &PtrVal{Alts: []PtrAlt{{C: TTrue, O: obj, Path: []PathElem{{Field: fieldIndex(S, "Actor")}}}}})))
				c.Add(&Obligation{Name: fmt.Sprintf("%s/wiring/arg%d=[actor]", grp, k), Group: grp, Common: common, Goal: goal, Pos: pos, Funcs: fns, Replay: rp})
				k++
			}
			// the audience is handed over as a copy of the list header (the object's own audience field is not the target)
			p := ex.readElem(st, lists, IntLit(int64(k))).(*PtrVal)
			cell := ex.load(st.clone(), p, nil, 0).(*SliceVal)
			aud := ex.heapGet(st, obj).(*StructVal).F[fieldIndex(S, "Audience")].(*SliceVal)
			c.Add(&Obligation{Name: fmt.Sprintf("%s/wiring/arg%d=copy-of-audience", grp, k), Group: grp, Common: common, Goal: ex.sliceIdentical(cell, aud), Pos: pos, Funcs: fns, Replay: rp})
			if n == "Activity" {
				typ := sv.F[fieldIndex(S, "Type")].(*Term)
				objNonNil := Not(ex.ifaceEq(sv.F[fieldIndex(S, "Object")].(*IfaceVal), &IfaceVal{Alts: []IfaceAlt{{C: TTrue}}}))
				c.Add(&Obligation{Name: grp + "/block/removal-runs-iff-block", Group: grp, Common: common, Goal: Iff(rfaC, And(Eq(typ, StrLit("Block")), objNonNil)), Pos: pos, Funcs: fns, Replay: rp})
				if rfaAtDedup != nil {
					// the removal has already happened when the lists are de-duplicated (and the audience copy is taken after it)
					c.Add(&Obligation{Name: grp + "/block/removal-precedes-deduplication", Group: grp, Common: common, Goal: Iff(rfaAtDedup, rfaC), Pos: pos, Funcs: fns, Replay: rp})
				}
				if rfaItems != nil {
					its := rfaItems.(*SliceVal)
					first := ex.readElem(st, its, IntLit(0)).(*IfaceVal)
					c.Add(&Obligation{Name: grp + "/block/removes-the-object", Group: grp, Common: common, Hyps: []*Term{rfaC},
						Goal: And(Eq(sliceLen(its), IntLit(1)), Eq(ex.abstractItem(first), ex.abstractItem(sv.F[fieldIndex(S, "Object")].(*IfaceVal)))), Pos: pos, Funcs: fns, Replay: rp})
				}
			} else {
				c.Add(&Obligation{Name: grp + "/no-removal", Group: grp, Common: common, Goal: Not(rfaC), Pos: pos, Funcs: fns})
			}
			for i, pn := range ex.panics {
				c.Add(&Obligation{Name: fmt.Sprintf("%s/nopanic/%s#%d", grp, pn.Kind, i), Group: grp + "/nopanic", Common: ex.assumes, Goal: Not(pn.C), Pos: pn.Pos, Funcs: fns})
			}
		})
	}
	// removeFromAudience: every addressing list is filtered
	guard(c, "C10/removeFromAudience", func() {
		ex := w.NewExec()
		var rets []Value
		ex.installRecorder("removeFromCollection", func(ex *Exec, st *State, f *ssa.Function, a []Value) Value {
			ex.objSeq++
			r := ex.symValue(f.Signature.Results().At(0).Type(), varNamer(fmt.Sprintf("filtered!%d", ex.objSeq)), false)
			rets = append(rets, r)
			return r
		})
		st := newState()
		T := w.Type("*Activity")
		S := w.Type("Activity")
		_, obj, sv := ex.symItemOfType(T, "a")
		items := ex.symValue(types.NewSlice(w.TPkg.Scope().Lookup("Item").Type()), varNamer("items"), false)
		ex.Call(st, w.Func("removeFromAudience"), []Value{&PtrVal{Alts: []PtrAlt{{C: TTrue, O: obj}}}, items}, nil)
		final := ex.heapGet(st, obj).(*StructVal)
		common := append([]*Term{ex.NoPanic()}, ex.assumes...)
		for _, f := range []string{"To", "Bto", "CC", "BCC", "Audience"} {
			k := fieldIndex(S, f)
			before := sv.F[k].(*SliceVal)
			var called []*Term
			for ri, rec := range ex.calls {
				if q, ok := rec.Args[0].(*SliceVal); ok && ri < len(rets) {
					// the list was handed to the filter and the property now holds exactly what the filter returned
					called = append(called, And(rec.C, ex.sliceIdentical(q, before), ex.sliceIdentical(final.F[k].(*SliceVal), rets[ri].(*SliceVal))))
				}
			}
			c.Add(&Obligation{Name: "C10/removeFromAudience/filters=" + f, Group: "C10/removeFromAudience", Common: common,
				Goal: Implies(ex.isSet(before), Or(called...)), Pos: "removeFromAudience", Funcs: []string{"removeFromAudience"}, Replay: c10Replay("Activity")})
		}
	})
	shapes := [][]int{{1}, {2}, {1, 1}, {2, 1}, {1, 2}, {3}, {1, 1, 1}, {1, 3}, {2, 2}, {3, 1}, {1, 1, 2}, {1, 2, 1}}
	if c.Tier == "thorough" {
		// deeper: every split of five entries over at most three lists that puts a duplicate candidate after two survivors;
		// these shapes run with append modelled in place (seed C10-m4 needs five entries and the aliasing). They are not in
		// the quick tier: on changed code (seed C10-m1) the in-place VCs of [1 4] did not finish within minutes
		shapes = append(shapes, []int{4}, []int{2, 3}, []int{3, 2}, []int{1, 4}, []int{1, 1, 3}, []int{2, 1, 2})
	}
	for _, shape := range shapes {
		dedupBounded(w, c, shape)
	}
	verifyContract(w, c, cs, "C10", "removeFromCollection", nil, nil, func(ex *Exec) { installItemsEqContract(ex) })
}

func c10Replay(n string) func(map[string]string) string {
	return func(map[string]string) string {
		actor := ""
		if n == "IntransitiveActivity" || n == "Question" || n == "Activity" {
			actor = "\tx.Actor = IRI(\"https://example.com/verif/actor\")\n"
		}
		block := ""
		if n == "Activity" {
			block = `	b := &Activity{ID: "https://example.com/verif/b", Type: BlockType, Object: &Actor{ID: "https://example.com/verif/bob", Type: PersonType, Name: NaturalLanguageValues{{Value: Content("Bob")}}}}
	b.To = ItemCollection{IRI("https://example.com/verif/alice"), &Actor{ID: "https://example.com/verif/bob", Type: PersonType}}
	b.Audience = ItemCollection{IRI("https://example.com/verif/bob")}
	for _, r := range b.Recipients() {
		if r.GetLink() == "https://example.com/verif/bob" {
			t.Fatalf("the blocked object is still a recipient: %v", b.Recipients())
		}
	}
	for _, l := range []ItemCollection{b.To, b.CC, b.Bto, b.BCC, b.Audience} {
		for _, r := range l {
			if r.GetLink() == "https://example.com/verif/bob" {
				t.Fatalf("the blocked object is still addressed: %v", l)
			}
		}
	}
`
		}
		wantActor := "false"
		if n == "IntransitiveActivity" || n == "Question" {
			wantActor = "true"
		}
		return fmt.Sprintf(`package activitypub

import (
	"reflect"
	"testing"
)

func TestVerifReplay(t *testing.T) {
	iri := func(s string) IRI { return IRI("https://example.com/verif/" + s) }
	x := &%s{ID: "https://example.com/verif/x"}
	x.To = ItemCollection{iri("a"), iri("b")}
	x.CC = ItemCollection{iri("c"), iri("a"), iri("x1"), iri("x2")}
	x.Bto = ItemCollection{iri("c"), iri("d")}
	x.BCC = ItemCollection{iri("e"), iri("b")}
	x.Audience = ItemCollection{iri("f"), iri("a")}
%s	got := x.Recipients()
	want := []IRI{iri("a"), iri("b"), iri("c"), iri("x1"), iri("x2"), iri("d"), iri("e")}
	if %s {
		want = append(want, iri("actor"))
	}
	want = append(want, iri("f"))
	var gl []IRI
	for _, g := range got {
		gl = append(gl, g.GetLink())
	}
	if !reflect.DeepEqual(gl, want) {
		t.Fatalf("recipients %%v, want first-mention order over to, cc, bto, bcc, [actor], audience: %%v", gl, want)
	}
	if !reflect.DeepEqual(x.CC, ItemCollection{iri("c"), iri("x1"), iri("x2")}) || !reflect.DeepEqual(x.Bto, ItemCollection{iri("d")}) || !reflect.DeepEqual(x.BCC, ItemCollection{iri("e")}) {
		t.Fatalf("the value's own lists after Recipients(): cc=%%v bto=%%v bcc=%%v", x.CC, x.Bto, x.BCC)
	}
%s}
`, n, actor, wantActor, block)
	}
}

func init() {
	externals["sort.Reverse"] = func(ex *Exec, st *State, a []Value, x *ssa.Call) Value {
		return &HostVal{Kind: "sortrev", V: a[0]}
	}
	externals["sort.Sort"] = func(ex *Exec, st *State, a []Value, x *ssa.Call) Value {
		hv, ok := a[0].(*HostVal)
		if !ok || hv.Kind != "sortrev" {
			panic(unsupported("sort.Sort of something else than sort.Reverse(sort.IntSlice)"))
		}
		iv, ok := hv.V.(*IfaceVal)
		if !ok || len(iv.Alts) != 1 || iv.Alts[0].T == nil || iv.Alts[0].T.String() != "sort.IntSlice" {
			panic(unsupported("sort.Reverse of something else than sort.IntSlice"))
		}
		sl := iv.Alts[0].V.(*SliceVal)
		for _, al := range sl.Alts {
			if al.O == nil {
				continue
			}
			n, ok1 := al.Len.IntVal()
			off, ok2 := al.Off.IntVal()
			if !ok1 || !ok2 || n > 40 {
				panic(unsupported(fmt.Sprintf("sort.Sort model: slice of symbolic or large length: %d alts, len=%s off=%s kind=%v", len(sl.Alts), al.Len, al.Off, al.O.kind)))
			}
			one := &SliceVal{Elem: sl.Elem, Alts: []SliceAlt{{C: TTrue, O: al.O, Off: al.Off, Len: al.Len}}}
			cur := make([]*Term, n)
			for k := range cur {
				cur[k] = ex.readElem(st, one, IntLit(int64(k))).(*Term)
			}
			srt := append([]*Term(nil), cur...)
			// descending bubble network
			for i := 0; i < len(srt); i++ {
				for j := 0; j+1 < len(srt)-i; j++ {
					p, q := srt[j], srt[j+1]
					srt[j], srt[j+1] = Ite(Ge(p, q), p, q), Ite(Ge(p, q), q, p)
				}
			}
			for k := range srt {
				if srt[k] == cur[k] {
					continue
				}
				p := &PtrVal{Alts: []PtrAlt{{C: TTrue, O: al.O, Path: []PathElem{{Index: IntLit(off + int64(k))}}}}}
				ex.store(st, p, Ite(al.C, srt[k], cur[k]), x.Pos())
			}
		}
		return nil
	}
}

// mkItemList: a list of the given opaque entries in its own backing array, held in its own cell.
func (ex *Exec) mkItemList(w *World, tag string, ents []*Term) (*PtrVal, *Obj) {
	itemT := w.TPkg.Scope().Lookup("Item").Type()
	ao := ex.newObj("ents:"+tag, OConcArr, itemT)
	av := &ArrVal{}
	for _, e := range ents {
		av.E = append(av.E, opaqueItem(e))
	}
	ex.initCache[ao] = av
	sl := &SliceVal{Elem: itemT, Alts: []SliceAlt{{C: TTrue, O: ao, Off: IntLit(0), Len: IntLit(int64(len(ents)))}}}
	co := ex.newObj("list:"+tag, OCell, w.Type("ItemCollection"))
	ex.initCache[co] = sl
	return &PtrVal{Alts: []PtrAlt{{C: TTrue, O: co}}}, co
}

func sumBools(bs []*Term) *Term {
	var r *Term = IntLit(0)
	for _, b := range bs {
		r = Add(r, Ite(b, IntLit(1), IntLit(0)))
	}
	return r
}

// dedupBounded runs the real ItemCollectionDeduplication on lists of the given lengths whose entries are arbitrary items.
func dedupBounded(w *World, c *Check, shape []int) {
	grp := fmt.Sprintf("C10/dedup/lists=%v", shape)
	total := 0
	for _, n := range shape {
		total += n
	}
	guard(c, grp, func() {
		ex := w.NewExec()
		// the in-place delete really shifts the entries later iterations read: modelled for the five-entry shapes (the
		// smallest in which it matters, seed C10-m4); the shapes of up to four entries keep the fresh-array model, whose
		// VCs stay small on changed code as well (with the in-place model a run on the C10-m1 seed did not end in 29 min)
		total := 0
		for _, n := range shape {
			total += n
		}
		ex.inPlaceAppend = total >= 5
		ex.symLoopBound = total + 1
		ex.unwindAssert = true
		installIsNilSpecHook(ex)
		var eqArgs []*Term
		seen := map[*Term]bool{}
		ex.hooks["(IRI).Equals"] = func(ex *Exec, st *State, fn *ssa.Function, args []Value) (Value, bool) {
			for _, a := range args[:2] {
				if t := a.(*Term); !seen[t] {
					seen[t] = true
					eqArgs = append(eqArgs, t)
				}
			}
			return App("iriEq", SBool, args[0].(*Term), args[1].(*Term), args[2].(*Term)), true
		}
		st := newState()
		type ent struct {
			e                         *Term
			list, idx                 int
			key, counted, first, keep *Term
		}
		var ents []*ent
		var ptrs []Value
		var cells []*Obj
		for li, n := range shape {
			var es []*Term
			for k := 0; k < n; k++ {
				e := Var(fmt.Sprintf("e%d_%d", li, k), SItem)
				es = append(es, e)
				ents = append(ents, &ent{e: e, list: li, idx: k})
			}
			p, co := ex.mkItemList(w, fmt.Sprint(li), es)
			ptrs = append(ptrs, p)
			cells = append(cells, co)
		}
		ptrT := types.NewPointer(w.Type("ItemCollection"))
		ao := ex.newObj("recCols", OConcArr, ptrT)
		ex.initCache[ao] = &ArrVal{E: ptrs}
		recCols := &SliceVal{Elem: ptrT, Alts: []SliceAlt{{C: TTrue, O: ao, Off: IntLit(0), Len: IntLit(int64(len(ptrs)))}}}
		fn := w.Func("ItemCollectionDeduplication")
		ret := ex.Call(st, fn, []Value{recCols}, nil).(*SliceVal)
		// ---- the statement's answer ----
		eq := func(a, b *Term) *Term { return App("iriEq", SBool, a, b, TFalse) }
		for k, en := range ents {
			en.key = Ite(mIsObject(en.e), App("m.GetID", SStr, en.e), mGetLink(en.e))
			// an entry names an addressee when it is an object or a link with a non-empty id (an id-less embedded object
			// names nobody: it is neither a recipient nor a duplicate of another id-less object)
			en.counted = And(Not(ex.isNilSpec(opaqueItem(en.e))), Or(mIsObject(en.e), App("m.IsLink", SBool, en.e)), Gt(SLen(en.key), IntLit(0)))
			dup := []*Term{}
			for _, pr := range ents[:k] {
				dup = append(dup, And(pr.counted, eq(en.key, pr.key)))
			}
			en.first = And(en.counted, Not(Or(dup...)))
			en.keep = Or(Not(en.counted), en.first)
		}
		// iriEq(.,.,false) is an equivalence on the ids in play (C14 decides that for IRI.Equals itself)
		var dom []*Term
		for _, en := range ents {
			dom = append(dom, en.key)
		}
		for _, t := range eqArgs {
			dom = append(dom, t)
		}
		var equiv []*Term
		for _, a := range dom {
			equiv = append(equiv, eq(a, a))
			for _, b := range dom {
				equiv = append(equiv, Implies(eq(a, b), eq(b, a)))
				for _, d := range dom {
					equiv = append(equiv, Implies(And(eq(a, b), eq(b, d)), eq(a, d)))
				}
			}
		}
		common := append(append([]*Term{ex.NoPanic()}, equiv...), ex.assumes...)
		pos := ex.pos(fn.Pos())
		fns := []string{"ItemCollectionDeduplication"}
		rp := c10DedupReplay(shape)
		iriT := w.Type("IRI")
		var firsts []*Term
		for _, en := range ents {
			firsts = append(firsts, en.first)
		}
		c.Add(&Obligation{Name: grp + "/returned/count", Group: grp, Common: common, Goal: Eq(sliceLen(ret), sumBools(firsts)), Pos: pos, Funcs: fns, Bounded: total, Replay: rp})
		for k, en := range ents {
			at := ex.readElem(st, ret, sumBools(firsts[:k])).(*IfaceVal)
			want := &IfaceVal{Alts: []IfaceAlt{{C: TTrue, T: iriT, V: en.key}}}
			wit := []Witness{{"retlen", sliceLen(ret)}}
			if ok, v := ex.assertTo(ex.normIface(at), iriT); v != nil {
				wit = append(wit, Witness{"atPayload", v.(*Term)}, Witness{"atIsIRI", ok})
			}
			for _, e2 := range ents {
				wit = append(wit, Witness{fmt.Sprintf("first%d.%d", e2.list, e2.idx), e2.first}, Witness{fmt.Sprintf("key%d.%d", e2.list, e2.idx), e2.key}, Witness{fmt.Sprintf("counted%d.%d", e2.list, e2.idx), e2.counted})
			}
			c.Add(&Obligation{Witnesses: wit, Name: fmt.Sprintf("%s/returned/first-mention-of-entry-%d.%d-in-order", grp, en.list, en.idx), Group: grp, Common: common,
				Goal: Implies(en.first, ex.ifaceEq(at, want)), Pos: pos, Funcs: fns, Bounded: total, Replay: rp})
		}
		for li := range shape {
			after := ex.heapGet(st, cells[li]).(*SliceVal)
			var keeps []*Term
			var mine []*ent
			for _, en := range ents {
				if en.list == li {
					mine = append(mine, en)
					keeps = append(keeps, en.keep)
				}
			}
			c.Add(&Obligation{Name: fmt.Sprintf("%s/list%d/length", grp, li), Group: grp, Common: common, Goal: Eq(sliceLen(after), sumBools(keeps)), Pos: pos, Funcs: fns, Bounded: total, Replay: rp})
			for k, en := range mine {
				at := ex.readElem(st, after, sumBools(keeps[:k])).(*IfaceVal)
				c.Add(&Obligation{Name: fmt.Sprintf("%s/list%d/survivor-%d-keeps-its-place", grp, li, k), Group: grp, Common: common,
					Goal: Implies(en.keep, Eq(ex.abstractItem(at), en.e)), Pos: pos, Funcs: fns, Bounded: total, Replay: rp})
			}
		}
		for i, pn := range ex.panics {
			c.Add(&Obligation{Name: fmt.Sprintf("%s/nopanic/%s#%d", grp, pn.Kind, i), Group: grp + "/nopanic", Common: append(equiv, ex.assumes...), Goal: Not(pn.C), Pos: pn.Pos, Funcs: fns, Bounded: total})
		}
		for i, r := range ex.residuals {
			c.Add(&Obligation{Name: fmt.Sprintf("%s/unwinding#%d", grp, i), Group: grp + "/unwinding", Common: append(equiv, ex.assumes...), Goal: Not(r), Pos: pos, Funcs: fns, Bounded: total})
		}
		if ex.bounded {
			c.Add(&Obligation{Name: grp + "/loops-fully-unrolled", Goal: TFalse, Pos: pos, Funcs: fns, EngineErr: "a loop was cut although the lists are of fixed length"})
		}
	})
}

// c10DedupReplay: for a failing de-duplication obligation the real ItemCollectionDeduplication is compared with
// the statement's rule on EVERY assignment of a small alphabet of entries to lists of the obligation's shape.
func c10DedupReplay(shape []int) func(map[string]string) string {
	var sz []string
	for _, n := range shape {
		sz = append(sz, fmt.Sprint(n))
	}
	return func(map[string]string) string {
		return `package activitypub

import (
	"reflect"
	"strings"
	"testing"
)

func TestVerifReplay(t *testing.T) {
	shape := []int{` + strings.Join(sz, ", ") + `}
	mk := []func() Item{
		func() Item { return nil },
		func() Item { return IRI("https://example.com/a") },
		func() Item { return IRI("http://example.com/a") },
		func() Item { return IRI("https://example.com/b") },
		func() Item { return IRI("https://example.com/c") },
		func() Item { return &Object{ID: "https://example.com/a"} },
		func() Item { return &Object{Type: NoteType} },
	}
	key := func(it Item) string {
		if IsNil(it) {
			return ""
		}
		k := ""
		if it.IsObject() {
			k = string(it.GetID())
		} else if it.IsLink() {
			k = string(it.GetLink())
		}
		return strings.TrimPrefix(strings.TrimPrefix(k, "https://"), "http://")
	}
	total := 0
	for _, n := range shape {
		total += n
	}
	idx := make([]int, total)
	for {
		// build the lists, the expected survivors and the expected recipients
		var lists, want []ItemCollection
		var rec []string
		seen := map[string]bool{}
		p := 0
		for _, n := range shape {
			l, wl := ItemCollection{}, ItemCollection{}
			for k := 0; k < n; k++ {
				it := mk[idx[p]]()
				p++
				l = append(l, it)
				kk := key(it)
				if kk != "" && seen[kk] {
					continue
				}
				if kk != "" {
					seen[kk] = true
					rec = append(rec, kk)
				}
				wl = append(wl, it)
			}
			lists = append(lists, l)
			want = append(want, wl)
		}
		ptrs := make([]*ItemCollection, len(lists))
		for i := range lists {
			ptrs[i] = &lists[i]
		}
		got := ItemCollectionDeduplication(ptrs...)
		var gk []string
		for _, g := range got {
			gk = append(gk, key(g))
		}
		if !reflect.DeepEqual(gk, rec) {
			t.Fatalf("choice %v: recipients %v, want %v", idx, gk, rec)
		}
		for i := range lists {
			if len(lists[i]) != len(want[i]) || (len(want[i]) > 0 && !reflect.DeepEqual(lists[i], want[i])) {
				t.Fatalf("choice %v: list %d after de-duplication is %v, want %v (first mention kept, order kept, nil and id-less entries left alone)", idx, i, lists[i], want[i])
			}
		}
		// next assignment
		k := 0
		for k < total {
			idx[k]++
			if idx[k] < len(mk) {
				break
			}
			idx[k] = 0
			k++
		}
		if k == total {
			break
		}
	}
}
`
	}
}
