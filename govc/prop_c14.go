package main

import (
	"fmt"
	"go/types"
)

func init() { drivers["C14"] = checkC14 }

// urlComp: component of the parsed URL of string s, as the executor sees it through field access.
func urlComp(s *Term, field string, sort Sort) *Term {
	u := App("urlOf", urlSort, s)
	ref := App("fieldaddr."+string(urlSort)+"."+field, Sort("O_ref"), u)
	return App("deref.O_ref", sort, ref)
}

func (ex *Exec) mkQuery(w *World, u *Term, q QueryModel, tag string) {
	vt := types.NewSlice(types.Typ[types.String])
	mt := types.NewMap(types.Typ[types.String], vt)
	o := ex.newObj("query:"+tag, OCell, mt)
	mc := &MapContent{}
	for i, k := range q.Keys {
		ao := ex.newObj(fmt.Sprintf("qvals:%s:%d", tag, i), OConcArr, types.Typ[types.String])
		av := &ArrVal{}
		for _, v := range q.Vals[i] {
			av.E = append(av.E, v)
		}
		ex.initCache[ao] = av
		sl := &SliceVal{Elem: types.Typ[types.String], Alts: []SliceAlt{{C: TTrue, O: ao, Off: IntLit(0), Len: IntLit(int64(len(q.Vals[i])))}}}
		mc.Ents = append(mc.Ents, MapEnt{C: TTrue, K: k, V: sl})
	}
	ex.initCache[o] = mc
	ex.urlQueries[u] = &MapVal{K: types.Typ[types.String], V: vt, Alts: []MapAlt{{C: TTrue, O: o}}}
}

func checkC14(w *World, c *Check) {
	c.Trusted = append(c.Trusted,
		"net/url.Parse and path/filepath.Clean are deterministic total functions of their argument; the components (scheme, host with port, path) of a parsed URL are uninterpreted functions of the string; strings.EqualFold is equality of a folding normal form",
		"the query of a URL is a finite multimap from key to a list of values; the executor runs the real comparison loops on multimaps with up to 2 keys x up to 2 values per key (bounded), the values being arbitrary strings",
		"go/types + go/ssa; SMT solvers' unsat answers")
	c.Assume = append(c.Assume,
		"NOT decided here: that the string fast path (fragment/scheme stripping + EqualFold) agrees with the URL slow path, dot segments/case in real URL strings, and exact coincidence with a reference normaliser — these need the concrete semantics of net/url (see DESIGN.md §14.5); inside IRI.Equals the stripping helpers are used by their contract (group C14/strip)",
		"decided: reflexivity and symmetry of IRI.Equals (fast path unbounded; slow path with bounded queries), that the slow path depends on the arguments only through scheme (when asked), folded host with port, folded cleaned path and the query multimap, and that IRIs.Contains agrees with Equals (C13 contract)")
	fn := w.Method("IRI", "Equals")
	mk := func() (*Exec, *State) {
		ex := w.NewExec()
		ex.abstractFns["stripFragment"] = true
		ex.abstractFns["stripScheme"] = true
		return ex, newState()
	}
	// ---- reflexivity and symmetry of the string fast path, unbounded ----
	guard(c, "C14/fast", func() {
		ex, st := mk()
		a, b, cs := Var("a", SStr), Var("b", SStr), Var("cs", SBool)
		// cut the slow path: irisEqual is a pure function of its arguments here
		ex.abstractFns["irisEqual"] = true
		raa := ex.Call(st, fn, []Value{a, a, cs}, nil).(*Term)
		rab := ex.Call(st, fn, []Value{a, b, cs}, nil).(*Term)
		rba := ex.Call(st, fn, []Value{b, a, cs}, nil).(*Term)
		common := append([]*Term{ex.NoPanic()}, ex.assumes...)
		c.Add(&Obligation{Name: "C14/refl", Group: "C14/fast", Common: common, Goal: raa, Pos: "IRI.Equals", Funcs: []string{"(IRI).Equals"}, Replay: c14Replay})
		// symmetry, given that the slow path is symmetric (proved below, bounded in the query)
		slow := func(x, y *Term) *Term { return App("abs:irisEqual", SBool, x, y, cs) }
		c.Add(&Obligation{Name: "C14/sym/fast-path", Group: "C14/fast", Common: common, Hyps: []*Term{Iff(slow(a, b), slow(b, a))}, Goal: Iff(rab, rba), Pos: "IRI.Equals", Funcs: []string{"(IRI).Equals"}, Replay: c14Replay})
	})
	// ---- slow path: components and bounded queries ----
	slowFn := w.Func("irisEqual")
	type qcase struct{ nk, nkB, nv int }
	var cases []qcase
	for nk := 0; nk <= 2; nk++ {
		for nv := 1; nv <= 2; nv++ {
			if nk == 0 && nv > 1 {
				continue
			}
			cases = append(cases, qcase{nk, nk, nv})
		}
	}
	cases = append(cases, qcase{0, 1, 1}, qcase{1, 2, 1}, qcase{1, 2, 2})
	if c.Tier == "thorough" {
		// deeper: three keys, and two against three
		cases = append(cases, qcase{3, 3, 1}, qcase{3, 3, 2}, qcase{2, 3, 1}, qcase{2, 3, 2})
	}
	for _, qc := range cases {
		{
			nk, nkB, nv := qc.nk, qc.nkB, qc.nv
			grp := fmt.Sprintf("C14/slow/keys=%d,values=%d", nk, nv)
			if nkB != nk {
				grp = fmt.Sprintf("C14/slow/keys=%d-vs-%d,values=%d", nk, nkB, nv)
			}
			guard(c, grp, func() {
				ex, st := mk()
				a, b, cs := Var("a", SStr), Var("b", SStr), Var("cs", SBool)
				ua, ub := App("urlOf", urlSort, a), App("urlOf", urlSort, b)
				var qa, qb QueryModel
				var distinctKeys []*Term
				for i := 0; i < nkB; i++ {
					k := Var(fmt.Sprintf("k%d", i), SStr)
					if i < nk {
						qa.Keys = append(qa.Keys, k)
					}
					qb.Keys = append(qb.Keys, k) // b has the keys of a (and possibly more)
					var va, vb []*Term
					for j := 0; j < nv; j++ {
						va = append(va, Var(fmt.Sprintf("va%d_%d", i, j), SStr))
						vb = append(vb, Var(fmt.Sprintf("vb%d_%d", i, j), SStr))
					}
					if i < nk {
						qa.Vals = append(qa.Vals, va)
					}
					qb.Vals = append(qb.Vals, vb)
					for i2 := 0; i2 < i; i2++ {
						distinctKeys = append(distinctKeys, Neq(qb.Keys[i2], k))
					}
				}
				ex.mkQuery(w, ua, qa, "a")
				ex.mkQuery(w, ub, qb, "b")
				rab := ex.Call(st, slowFn, []Value{a, b, cs}, nil).(*Term)
				rba := ex.Call(st, slowFn, []Value{b, a, cs}, nil).(*Term)
				common := append(append([]*Term{ex.NoPanic()}, distinctKeys...), ex.assumes...)
				bound := 2
					if nkB > 2 {
						bound = 3
					}
				wit := []Witness{{"rab", rab}, {"rba", rba}, {"errA", Eq(App("urlParseErr", SErr, a), ErrNil)}, {"errB", Eq(App("urlParseErr", SErr, b), ErrNil)},
					{"aEmpty", Eq(a, StrLit(""))}, {"bEmpty", Eq(b, StrLit(""))}, {"cs", cs},
					{"schemeEq", EqFold(urlComp(a, "Scheme", SStr), urlComp(b, "Scheme", SStr))}, {"hostEq", EqFold(urlComp(a, "Host", SStr), urlComp(b, "Host", SStr))},
					{"foldEq", EqFold(a, b)}}
				c.Add(&Obligation{Name: grp + "/sym", Group: grp, Common: common, Goal: Iff(rab, rba), Pos: "irisEqual", Funcs: []string{"irisEqual"}, Bounded: bound, Replay: c14Replay, Witnesses: wit})
				if nk == 0 && nkB == 0 {
					// components: with both URLs valid and no query, the answer is exactly the component rule
					valid := func(s *Term) *Term {
						return And(Eq(App("urlParseErr", SErr, s), ErrNil), Neq(s, StrLit("")),
							Gt(SLen(urlComp(s, "Scheme", SStr)), IntLit(0)), Gt(SLen(urlComp(s, "Host", SStr)), IntLit(0)))
					}
					pa, pb := urlComp(a, "Path", SStr), urlComp(b, "Path", SStr)
					pathEq := Or(And(Eq(pa, StrLit("/")), Eq(pb, StrLit(""))), And(Eq(pa, StrLit("")), Eq(pb, StrLit("/"))),
						EqFold(App("filepath.Clean", SStr, pa), App("filepath.Clean", SStr, pb)))
					spec := And(Implies(cs, EqFold(urlComp(a, "Scheme", SStr), urlComp(b, "Scheme", SStr))),
						EqFold(urlComp(a, "Host", SStr), urlComp(b, "Host", SStr)), pathEq)
					c.Add(&Obligation{Name: "C14/slow/components", Group: grp, Common: common, Hyps: []*Term{valid(a), valid(b)}, Goal: Iff(rab, spec), Pos: "irisEqual", Funcs: []string{"irisEqual"}, Replay: c14Replay})
				}
				for i, p := range ex.panics {
					c.Add(&Obligation{Name: fmt.Sprintf("%s/nopanic/%s#%d", grp, p.Kind, i), Group: grp + "/nopanic", Common: ex.assumes, Goal: Not(p.C), Pos: p.Pos, Funcs: []string{"irisEqual"}, Bounded: bound})
				}
			})
		}
	}
	// ---- the two stripping helpers: where the string is cut ----
	guard(c, "C14/strip", func() {
		ex := w.NewExec()
		st := newState()
		u := Var("u", SStr)
		frag := ex.Call(st, w.Func("stripFragment"), []Value{u}, nil).(*Term)
		sch := ex.Call(st, w.Func("stripScheme"), []Value{u}, nil).(*Term)
		ih := App("strings.Index", SInt, u, StrLit("#"))
		is := App("strings.Index", SInt, u, StrLit("://"))
		common := append([]*Term{ex.NoPanic()}, ex.assumes...)
		cut := func(lo, hi *Term) *Term { return App("sslice", SStr, u, lo, hi) }
		c.Add(&Obligation{Name: "C14/strip/fragment-cut-at-the-first-hash", Group: "C14/strip", Common: common, Hyps: []*Term{Gt(ih, IntLit(0)), Lt(ih, SLen(u))}, Goal: Eq(frag, cut(IntLit(0), ih)), Pos: "stripFragment", Funcs: []string{"stripFragment"}, Replay: c14Replay})
		c.Add(&Obligation{Name: "C14/strip/no-fragment-keeps-the-string", Group: "C14/strip", Common: common, Hyps: []*Term{Le(ih, IntLit(0))}, Goal: Eq(frag, u), Pos: "stripFragment", Funcs: []string{"stripFragment"}, Replay: c14Replay})
		c.Add(&Obligation{Name: "C14/strip/scheme-cut-at-the-first-separator", Group: "C14/strip", Common: common, Hyps: []*Term{Gt(is, IntLit(0))}, Goal: Eq(sch, cut(is, SLen(u))), Pos: "stripScheme", Funcs: []string{"stripScheme"}, Replay: c14Replay})
		c.Add(&Obligation{Name: "C14/strip/no-scheme-keeps-the-string", Group: "C14/strip", Common: common, Hyps: []*Term{Le(is, IntLit(0))}, Goal: Eq(sch, u), Pos: "stripScheme", Funcs: []string{"stripScheme"}, Replay: c14Replay})
		for i, p := range ex.panics {
			c.Add(&Obligation{Name: fmt.Sprintf("C14/strip/nopanic/%s#%d", p.Kind, i), Group: "C14/strip", Common: ex.assumes, Goal: Not(p.C), Pos: p.Pos, Funcs: []string{"stripFragment", "stripScheme"}})
		}
	})
	// transitivity at component level: the component rule is an intersection of equivalences
	{
		x, y, z := Var("x", SStr), Var("y", SStr), Var("z", SStr)
		rule := func(p, q *Term) *Term {
			return And(EqFold(App("scheme", SStr, p), App("scheme", SStr, q)), EqFold(App("host", SStr, p), App("host", SStr, q)), EqFold(App("cleanpath", SStr, p), App("cleanpath", SStr, q)))
		}
		c.Add(&Obligation{Name: "C14/slow/components-transitive", Goal: Implies(And(rule(x, y), rule(y, z)), rule(x, z)), Pos: "lemma over C14/slow/components"})
		c.Add(&Obligation{Name: "C14/slow/components-symmetric", Goal: Implies(rule(x, y), rule(y, x)), Pos: "lemma over C14/slow/components"})
	}
}

func c14Replay(map[string]string) string {
	return `package activitypub

import (
	"net/url"
	"path"
	"sort"
	"strings"
	"testing"
)

func TestVerifReplay(t *testing.T) {
	schemes := []string{"http://", "https://", "HTTP://"}
	hosts := []string{"example.com", "EXAMPLE.com", "example.com:8080", "example.net"}
	paths := []string{"", "/", "/a", "/a/", "/A", "/a/b", "/a/../a", "/../a", "/b/../../a", "/../example.net/a"}
	queries := []string{"", "?x=1", "?x=1&y=2", "?y=2&x=1", "?x=1&x=1", "?x=1&x=2", "?u=http://other.org/x"}
	frags := []string{"", "#f"}
	var iris []IRI
	for _, s := range schemes {
		for _, h := range hosts {
			for _, p := range paths {
				for _, q := range queries {
					for _, f := range frags {
						iris = append(iris, IRI(s+h+p+q+f))
					}
				}
			}
		}
	}
	iris = append(iris, "", "-", "not a url", "#frag", "/relative")
	host := func(i IRI) string { u, _ := i.URL(); if u == nil { return "" }; return u.Host }
	// reference normaliser (the statement's component rule): host with port, cleaned path, multiset of query parameters
	type nf struct{ ok bool; scheme, host, path, query string }
	norm := map[IRI]nf{}
	for _, i := range iris {
		u, err := url.Parse(string(i))
		if err != nil || u.Scheme == "" || u.Host == "" {
			norm[i] = nf{}
			continue
		}
		p := path.Clean(u.Path)
		if p == "." || p == "" {
			p = "/"
		}
		var qs []string
		for k, vs := range u.Query() {
			for _, v := range vs {
				qs = append(qs, k+"="+v)
			}
		}
		sort.Strings(qs)
		norm[i] = nf{true, strings.ToLower(u.Scheme), strings.ToLower(u.Host), strings.ToLower(p), strings.Join(qs, "&")}
	}
	for _, cs := range []bool{true, false} {
		for _, a := range iris {
			if !a.Equals(a, cs) {
				t.Fatalf("%q.Equals(itself, %v) is false", a, cs)
			}
			for _, b := range iris {
				ab, ba := a.Equals(b, cs), b.Equals(a, cs)
				if ab != ba {
					t.Fatalf("asymmetric: %q.Equals(%q,%v)=%v but the reverse is %v", a, b, cs, ab, ba)
				}
				if ab && host(a) != "" && host(b) != "" && !eqFoldASCII(host(a), host(b)) {
					t.Fatalf("%q equals %q although the hosts (with port) differ", a, b)
				}
				if na, nb := norm[a], norm[b]; na.ok && nb.ok {
					want := na.host == nb.host && na.path == nb.path && na.query == nb.query && (!cs || na.scheme == nb.scheme)
					if ab != want {
						t.Fatalf("%q.Equals(%q,%v)=%v but the component rule (host, cleaned path, query multiset) says %v", a, b, cs, ab, want)
					}
				}
			}
		}
	}
}

func eqFoldASCII(a, b string) bool {
	if len(a) != len(b) {
		return false
	}
	for i := range a {
		x, y := a[i], b[i]
		if 'A' <= x && x <= 'Z' {
			x += 32
		}
		if 'A' <= y && y <= 'Z' {
			y += 32
		}
		if x != y {
			return false
		}
	}
	return true
}
`
}
