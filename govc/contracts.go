package main

// Contracts: structured comments in /repo/contracts_verif.go (build tag verif, comment-only file).
//
//   //@ func <name>                  name as printed by govc, e.g. (ItemCollection).Contains
//   //@ requires <sexpr>
//   //@ ensures <sexpr>
//   //@ loop <ordinal>
//   //@   invariant <sexpr>
//   //@   decreases <sexpr>
//
// Expressions are S-expressions (they mirror SMT-LIB so that what is proved is what is written):
//   atoms: integers, true, false, nil, "string", identifiers (bound variables, loop variables by their
//          source name, parameters, result / result0.. / named results)
//   (and ..) (or ..) (not x) (=> a b) (= a b) (< a b) (<= a b) (> a b) (>= a b) (+ a b) (- a b) (ite c a b)
//   (len x) (at x k) (field x Name) (deref p) (old e) (isnil x) (forall (k ..) body) (exists (k ..) body)
//   (itemsEq a b) (iriEq a b cs) ... : uninterpreted specification predicates

import (
	"fmt"
	"go/types"
	"os"
	"path/filepath"
	"strconv"
	"strings"

	"golang.org/x/tools/go/ssa"
)

type SExpr struct {
	Atom string
	Str  bool
	List []*SExpr
}

func (s *SExpr) String() string {
	if s.List == nil {
		if s.Str {
			return strconv.Quote(s.Atom)
		}
		return s.Atom
	}
	var parts []string
	for _, e := range s.List {
		parts = append(parts, e.String())
	}
	return "(" + strings.Join(parts, " ") + ")"
}

func parseSExpr(src string) (*SExpr, error) {
	p := &sparser{s: src}
	e, err := p.parse()
	if err != nil {
		return nil, err
	}
	p.ws()
	if p.i < len(p.s) {
		return nil, fmt.Errorf("trailing input %q", p.s[p.i:])
	}
	return e, nil
}

type sparser struct {
	s string
	i int
}

func (p *sparser) ws() {
	for p.i < len(p.s) && strings.ContainsRune(" \t\n\r", rune(p.s[p.i])) {
		p.i++
	}
}
func (p *sparser) parse() (*SExpr, error) {
	p.ws()
	if p.i >= len(p.s) {
		return nil, fmt.Errorf("unexpected end")
	}
	switch c := p.s[p.i]; {
	case c == '(':
		p.i++
		e := &SExpr{List: []*SExpr{}}
		for {
			p.ws()
			if p.i >= len(p.s) {
				return nil, fmt.Errorf("missing )")
			}
			if p.s[p.i] == ')' {
				p.i++
				return e, nil
			}
			x, err := p.parse()
			if err != nil {
				return nil, err
			}
			e.List = append(e.List, x)
		}
	case c == '"':
		j := p.i + 1
		for j < len(p.s) && p.s[j] != '"' {
			j++
		}
		if j >= len(p.s) {
			return nil, fmt.Errorf("unterminated string")
		}
		e := &SExpr{Atom: p.s[p.i+1 : j], Str: true}
		p.i = j + 1
		return e, nil
	case c == ')':
		return nil, fmt.Errorf("unexpected )")
	}
	j := p.i
	for j < len(p.s) && !strings.ContainsRune(" \t\n\r()", rune(p.s[j])) {
		j++
	}
	e := &SExpr{Atom: p.s[p.i:j]}
	p.i = j
	return e, nil
}

type LoopSpec struct {
	Auto      bool // synthesized safety-only cut (no written invariant)
	Key       string
	Inv       []*SExpr
	Decreases *SExpr
}

type FuncSpec struct {
	Name     string
	Requires []*SExpr
	Ensures  []*SExpr
	Loops    map[int]*LoopSpec
	Raw      []string
}

type Contracts struct {
	Funcs map[string]*FuncSpec
	File  string
	Lines int
	// mechanical scan
	Assumes []string
}

// LoadContracts reads the comment-only contracts file of the working tree.
func LoadContracts() (*Contracts, error) {
	cs := &Contracts{Funcs: map[string]*FuncSpec{}, File: filepath.Join(repoDir, "contracts_verif.go")}
	b, err := os.ReadFile(cs.File)
	if err != nil {
		return cs, err
	}
	var cur *FuncSpec
	var curLoop *LoopSpec
	var pendKind, pend string
	flush := func() error {
		if pendKind == "" {
			return nil
		}
		e, err := parseSExpr(pend)
		if err != nil {
			return fmt.Errorf("%s: %v in %q", cur.Name, err, pend)
		}
		switch pendKind {
		case "requires":
			cur.Requires = append(cur.Requires, e)
		case "ensures":
			cur.Ensures = append(cur.Ensures, e)
		case "invariant":
			if curLoop == nil {
				return fmt.Errorf("%s: invariant outside loop", cur.Name)
			}
			curLoop.Inv = append(curLoop.Inv, e)
		case "decreases":
			if curLoop == nil {
				return fmt.Errorf("%s: decreases outside loop", cur.Name)
			}
			curLoop.Decreases = e
		}
		pendKind, pend = "", ""
		return nil
	}
	depth := func(s string) int { return strings.Count(s, "(") - strings.Count(s, ")") }
	for _, ln := range strings.Split(string(b), "\n") {
		t := strings.TrimSpace(ln)
		if !strings.HasPrefix(t, "//@") {
			continue
		}
		cs.Lines++
		t = strings.TrimSpace(strings.TrimPrefix(t, "//@"))
		if t == "" {
			continue
		}
		if pendKind != "" && depth(pend) > 0 {
			pend += " " + t
			continue
		}
		if err := flush(); err != nil {
			return cs, err
		}
		w := strings.SplitN(t, " ", 2)
		rest := ""
		if len(w) > 1 {
			rest = strings.TrimSpace(w[1])
		}
		switch w[0] {
		case "func":
			cur = &FuncSpec{Name: rest, Loops: map[int]*LoopSpec{}}
			cs.Funcs[rest] = cur
			curLoop = nil
		case "loop":
			if cur == nil {
				return cs, fmt.Errorf("loop outside func")
			}
			n, err := strconv.Atoi(rest)
			if err != nil {
				return cs, fmt.Errorf("%s: bad loop ordinal %q", cur.Name, rest)
			}
			curLoop = &LoopSpec{Key: fmt.Sprintf("%s#%d", cur.Name, n)}
			cur.Loops[n] = curLoop
		case "requires", "ensures", "invariant", "decreases":
			if cur == nil {
				return cs, fmt.Errorf("%s outside func", w[0])
			}
			pendKind, pend = w[0], rest
		case "assume", "axiom", "trusted":
			cs.Assumes = append(cs.Assumes, t)
		default:
			return cs, fmt.Errorf("unknown contract line %q", t)
		}
		if cur != nil {
			cur.Raw = append(cur.Raw, t)
		}
	}
	if err := flush(); err != nil {
		return cs, err
	}
	return cs, nil
}

// UseLoops installs the loop invariants of the named functions into the executor.
func (ex *Exec) UseLoops(cs *Contracts, fns ...string) {
	for _, f := range fns {
		if fs, ok := cs.Funcs[f]; ok {
			for _, l := range fs.Loops {
				ex.invariants[l.Key] = l
			}
		}
	}
}

// ---------- evaluation ----------

type EvalCtx struct {
	ex     *Exec
	st     *State // state expressions are evaluated in
	old    *State // state (old e) is evaluated in
	fn     *ssa.Function
	vars   map[string]Value // loop variables / results by name
	bound  map[string]*Term
	params []Value
}

var specPreds = map[string]Sort{"itemsEq": SBool, "iriEq": SBool, "eqfold": SBool, "cleanRec": SItem}

func (c *EvalCtx) lookup(name string) (Value, bool) {
	if t, ok := c.bound[name]; ok {
		return t, true
	}
	if v, ok := c.vars[name]; ok {
		return v, true
	}
	if c.fn != nil {
		for i, p := range c.fn.Params {
			if p.Name() == name && i < len(c.params) {
				return c.params[i], true
			}
		}
	}
	return nil, false
}

func (c *EvalCtx) term(e *SExpr) *Term {
	v := c.eval(e)
	switch x := v.(type) {
	case *Term:
		return x
	case *IfaceVal:
		return c.ex.abstractItem(x)
	}
	panic(unsupported(fmt.Sprintf("contract expression %s is not a scalar (%T)", e, v)))
}

func (c *EvalCtx) eval(e *SExpr) Value {
	ex := c.ex
	if e.List == nil {
		if e.Str {
			return StrLit(e.Atom)
		}
		switch e.Atom {
		case "true":
			return TTrue
		case "false":
			return TFalse
		case "nil":
			return &IfaceVal{Alts: []IfaceAlt{{C: TTrue}}}
		case "nilbytes":
			return BytesNil
		}
		if n, err := strconv.ParseInt(e.Atom, 10, 64); err == nil {
			return IntLit(n)
		}
		if v, ok := c.lookup(e.Atom); ok {
			return v
		}
		panic(unsupported("contract: unknown identifier " + e.Atom))
	}
	if len(e.List) == 0 {
		panic(unsupported("contract: empty list"))
	}
	head := e.List[0].Atom
	args := e.List[1:]
	bin := func(f func(a, b *Term) *Term) Value { return f(c.term(args[0]), c.term(args[1])) }
	switch head {
	case "and":
		var ts []*Term
		for _, a := range args {
			ts = append(ts, c.term(a))
		}
		return And(ts...)
	case "or":
		var ts []*Term
		for _, a := range args {
			ts = append(ts, c.term(a))
		}
		return Or(ts...)
	case "not":
		return Not(c.term(args[0]))
	case "=>":
		return Implies(c.term(args[0]), c.term(args[1]))
	case "=":
		a, b := c.eval(args[0]), c.eval(args[1])
		return c.eq(a, b)
	case "<":
		return bin(Lt)
	case "<=":
		return bin(Le)
	case ">":
		return bin(Gt)
	case ">=":
		return bin(Ge)
	case "+":
		return bin(Add)
	case "-":
		return bin(Sub)
	case "ite":
		return ex.merge(c.term(args[0]), c.eval(args[1]), c.eval(args[2]))
	case "len":
		switch x := c.eval(args[0]).(type) {
		case *SliceVal:
			return sliceLen(x)
		case *Term:
			if x.S == SStr {
				return SLen(x)
			}
			if x.S == SBytes {
				return BLen(x)
			}
		}
		panic(unsupported("contract: len of " + args[0].String()))
	case "at":
		s, ok := c.eval(args[0]).(*SliceVal)
		if !ok {
			panic(unsupported("contract: at on non-slice " + args[0].String()))
		}
		return ex.readElem(c.st, s, c.term(args[1]))
	case "field":
		v := c.eval(args[0])
		name := args[1].Atom
		if p, ok := v.(*PtrVal); ok {
			v = ex.load(c.st.clone(), p, nil, 0)
		}
		sv, ok := v.(*StructVal)
		if !ok {
			panic(unsupported("contract: field of non-struct " + args[0].String()))
		}
		i := fieldIndex(sv.T, name)
		if i < 0 {
			panic(unsupported("contract: no field " + name + " in " + typeName(sv.T)))
		}
		return sv.F[i]
	case "deref":
		p, ok := c.eval(args[0]).(*PtrVal)
		if !ok {
			panic(unsupported("contract: deref of non-pointer " + args[0].String()))
		}
		return ex.load(c.st.clone(), p, nil, 0)
	case "old":
		if c.old == nil {
			panic(unsupported("contract: old outside a two-state context"))
		}
		c2 := *c
		c2.st = c.old
		return c2.eval(args[0])
	case "isnil":
		switch x := c.eval(args[0]).(type) {
		case *IfaceVal:
			return ex.ifaceEq(x, &IfaceVal{Alts: []IfaceAlt{{C: TTrue}}})
		case *PtrVal:
			return Not(nonNilPtr(x))
		case *SliceVal:
			var cs []*Term
			for _, al := range x.Alts {
				if al.O == nil {
					cs = append(cs, al.C)
				}
			}
			return Or(cs...)
		case *Term:
			if x.S == SBytes {
				return Eq(x, BytesNil)
			}
		}
		panic(unsupported("contract: isnil of " + args[0].String()))
	case "forall", "exists":
		var bs []*Term
		nb := map[string]*Term{}
		for k, v := range c.bound {
			nb[k] = v
		}
		for _, b := range args[0].List {
			t := FreshBound(b.Atom, SInt)
			bs = append(bs, t)
			nb[b.Atom] = t
		}
		c2 := *c
		c2.bound = nb
		body := c2.term(args[1])
		if head == "forall" {
			return Forall(bs, body)
		}
		return Exists(bs, body)
	case "link":
		// the IRI an item is identified by: the result of its GetLink method
		iv, ok := c.eval(args[0]).(*IfaceVal)
		if !ok {
			if t, ok := c.eval(args[0]).(*Term); ok && t.S == SStr {
				return t
			}
			panic(unsupported("contract: link of non-item " + args[0].String()))
		}
		st := c.st.clone()
		np := len(ex.panics)
		r := ex.invoke(st, iv, ex.methodOf("LinkOrIRI", "GetLink"), nil, fakeCall(ex.world, "GetLink"))
		ex.panics = ex.panics[:np]
		return r
	case "idOf":
		iv, ok := c.eval(args[0]).(*IfaceVal)
		if !ok {
			panic(unsupported("contract: idOf of non-item " + args[0].String()))
		}
		return App("m.GetID", SStr, ex.abstractItem(iv))
	case "isNilItem":
		iv, ok := c.eval(args[0]).(*IfaceVal)
		if !ok {
			panic(unsupported("contract: isNilItem of non-item " + args[0].String()))
		}
		return ex.isNilSpec(iv)
	case "bytesEq":
		a, b := c.term(args[0]), c.term(args[1])
		return Or(Eq(a, b), And(Eq(BLen(a), IntLit(0)), Eq(BLen(b), IntLit(0))), Eq(B2S(a), B2S(b)))
	}
	if s, ok := specPreds[head]; ok {
		var ts []*Term
		for _, a := range args {
			ts = append(ts, c.term(a))
		}
		if head == "eqfold" {
			return EqFold(ts[0], ts[1])
		}
		return App(head, s, ts...)
	}
	panic(unsupported("contract: unknown form " + head))
}

func (c *EvalCtx) eq(a, b Value) *Term {
	// `nil` against scalar kinds
	isNilLit := func(v Value) bool {
		iv, ok := v.(*IfaceVal)
		return ok && len(iv.Alts) == 1 && iv.Alts[0].T == nil && iv.Alts[0].Opaque == nil
	}
	nilOf := func(t *Term) Value {
		switch t.S {
		case SErr:
			return ErrNil
		case SBytes:
			return BytesNil
		}
		return nil
	}
	if t, ok := a.(*Term); ok && isNilLit(b) {
		if n := nilOf(t); n != nil {
			b = n
		}
	}
	if t, ok := b.(*Term); ok && isNilLit(a) {
		if n := nilOf(t); n != nil {
			a = n
		}
	}
	switch x := a.(type) {
	case *IfaceVal:
		if y, ok := b.(*IfaceVal); ok {
			return Eq(c.ex.abstractItem(x), c.ex.abstractItem(y))
		}
		if y, ok := b.(*Term); ok && y.S == SItem {
			return Eq(c.ex.abstractItem(x), y)
		}
	case *Term:
		if y, ok := b.(*Term); ok {
			return Eq(x, y)
		}
		if y, ok := b.(*IfaceVal); ok && x.S == SItem {
			return Eq(x, c.ex.abstractItem(y))
		}
	}
	return c.ex.valueEq(a, b)
}

var _ = types.Typ

func (ex *Exec) methodOf(iface, name string) *types.Func {
	it := ex.pkg.Pkg.Scope().Lookup(iface).Type().Underlying().(*types.Interface)
	for i := 0; i < it.NumMethods(); i++ {
		if it.Method(i).Name() == name {
			return it.Method(i)
		}
	}
	panic(unsupported("method " + name + " not in " + iface))
}

// isNilSpec is the callee contract of IsNil used where its body is not executed: untyped nil, nil
// pointers and the empty / "-" IRI are nil-like; for an item of unknown dynamic type the answer is the
// uninterpreted predicate isNilItem(x).
func (ex *Exec) isNilSpec(iv *IfaceVal) *Term {
	var r *Term = TFalse
	for _, al := range ex.normIface(iv).Alts {
		var t *Term
		switch {
		case al.Opaque != nil:
			t = Or(Eq(tagOfItem(al.Opaque), TagNil), App("isNilItem", SBool, al.Opaque))
		case al.T == nil:
			t = TTrue
		default:
			switch v := al.V.(type) {
			case *PtrVal:
				t = Not(nonNilPtr(v))
			case *Term:
				if v.S == SStr {
					t = Or(Eq(SLen(v), IntLit(0)), Eq(Fold(v), StrLit("-")))
				} else {
					t = TFalse
				}
			case *SliceVal:
				var cs []*Term
				for _, sa := range v.Alts {
					if sa.O == nil {
						cs = append(cs, sa.C)
					}
				}
				t = Or(cs...)
			default:
				t = TFalse
			}
		}
		r = Ite(al.C, t, r)
	}
	return r
}
