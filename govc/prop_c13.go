package main

import (
	"go/types"
	"golang.org/x/tools/go/ssa"
)

func init() { drivers["C13"] = checkC13 }

func installItemsEqContract(ex *Exec) {
	ex.installIRIEqualsHook()
	ex.hooks["IsNil"] = func(ex *Exec, st *State, f *ssa.Function, a []Value) (Value, bool) {
		return ex.isNilSpec(asItemVal(a[0])), true
	}
	ex.hooks["ItemsEqual"] = func(ex *Exec, st *State, f *ssa.Function, a []Value) (Value, bool) {
		return App("itemsEq", SBool, ex.abstractItem(asItemVal(a[0])), ex.abstractItem(asItemVal(a[1]))), true
	}
}

var c13Kinds = []string{"ItemCollection", "Collection", "CollectionPage", "OrderedCollection", "OrderedCollectionPage"}

func checkC13(w *World, c *Check) {
	c.Trusted = append(c.Trusted,
		"callee contract: ItemsEqual(a,b) is a total, pure relation itemsEq(a,b) (its nil rules, reflexivity and identity sensitivity are property C09)",
		"callee contract: IsNil(x) is true for the untyped nil, nil pointers, nil lists and the empty or \"-\" IRI, and an uninterpreted pure predicate isNilItem(x) for an item of unknown dynamic type (property C20 covers IsNil itself); IRI.Equals is the relation iriEq (C14)",
		"append(s, x...) yields the sequence s followed by x in a fresh backing array (capacity reuse/aliasing between slice headers is not modelled)",
		"C08: ToItemCollection returns a pointer into the collection for the four struct kinds",
		"go/types + go/ssa (x/tools v0.29.0); SMT solvers' unsat answers (quantified goals by instantiation)")
	c.Assume = append(c.Assume,
		"contracts and loop invariants are read from /repo/contracts_verif.go; all loops are cut by invariants, so the per-operation contracts hold for collections and argument lists of any length",
		"history law: the per-operation contracts are the transitions of the insertion-ordered-set model; the lemmas 'appended is contained', 'present append changes nothing', 'absent append grows by one', 'remove shrinks by one' are proved from real-code compositions ('removed is not contained' is an on-paper corollary of Remove's contract: its VC is solver-unstable and is not claimed) under the statement's precondition that itemsEq is an equivalence on the item pool (distinct identity)",
		"Remove exists only on *ItemCollection; for the struct kinds it acts through ToItemCollection (an aliasing pointer, obligation C13/<kind>/view-aliases); IRIs: see level note")
	cs, err := LoadContracts()
	if err != nil {
		c.Add(&Obligation{Name: "C13/contracts", EngineErr: "cannot read contracts: " + err.Error()})
		return
	}
	for _, k := range c13Kinds {
		verifyContract(w, c, cs, "C13", "("+k+").Contains", nil, nil, installItemsEqContract)
		verifyContract(w, c, cs, "C13", "(*"+k+").Count", nil, nil, installItemsEqContract)
		loops := []string{"(ItemCollection).Contains"}
		verifyContract(w, c, cs, "C13", "(*"+k+").Append", loops, nil, installItemsEqContract)
	}
	verifyContract(w, c, cs, "C13", "(*ItemCollection).Remove", nil, nil, installItemsEqContract)
	verifyContract(w, c, cs, "C13", "(IRIs).Contains", nil, nil, installItemsEqContract)
	verifyContract(w, c, cs, "C13", "(*IRIs).Count", nil, nil, installItemsEqContract)
	verifyContract(w, c, cs, "C13", "(*IRIs).Append", []string{"(IRIs).Contains"}, nil, installItemsEqContract)
	// Remove for the struct kinds goes through ToItemCollection: it must return a pointer INTO the collection
	for _, k := range c13Kinds[1:] {
		k := k
		guard(c, "C13/"+k+"/view-aliases", func() {
			ex := w.NewExec()
			st := newState()
			T := w.Type("*" + k)
			iv, obj, _ := ex.symItemOfType(T, "c")
			r := ex.Call(st, w.Func("ToItemCollection"), []Value{iv}, nil).(*TupleVal)
			field := "Items"
			if k == "OrderedCollection" || k == "OrderedCollectionPage" {
				field = "OrderedItems"
			}
			want := &PtrVal{Alts: []PtrAlt{{C: TTrue, O: obj, Path: []PathElem{{Field: fieldIndex(w.Type(k), field)}}}}}
			c.Add(&Obligation{Name: "C13/" + k + "/view-aliases", Common: append([]*Term{ex.NoPanic()}, ex.assumes...),
				Goal: And(Eq(r.V[1].(*Term), ErrNil), ex.ptrEq(r.V[0].(*PtrVal), want)), Pos: "ToItemCollection", Funcs: []string{"ToItemCollection"}})
		})
	}
	// history lemmas on the real code (loops cut by invariants), under the statement's precondition that
	// itemsEq is an equivalence on the pool
	guard(c, "C13/laws", func() {
		ex := w.NewExec()
		installItemsEqContract(ex)
		ex.UseLoops(cs, "(ItemCollection).Contains", "(*ItemCollection).Append", "(*ItemCollection).Remove")
		st := newState()
		icT := w.Type("ItemCollection")
		cell := ex.newObj("col", OCell, icT)
		cell.owner = 0
		v0 := ex.symValue(icT, varNamer("col"), false)
		cell.init = func() Value { return v0 }
		cp := &PtrVal{Alts: []PtrAlt{{C: TTrue, O: cell}}}
		x := Var("x", SItem)
		xi := opaqueItem(x)
		ex.assume(Neq(tagOfItem(x), TagNil))
		one := func() Value {
			o := ex.newObj("varargs", OConcArr, icT.Underlying().(*types.Slice).Elem())
			st.heap[o] = &ArrVal{E: []Value{xi}}
			return &SliceVal{Elem: icT.Underlying().(*types.Slice).Elem(), Alts: []SliceAlt{{C: TTrue, O: o, Off: IntLit(0), Len: IntLit(1)}}}
		}
		len0 := sliceLen(v0.(*SliceVal))
		k := FreshBound("k", SInt)
		present0 := Exists([]*Term{k}, And(Le(IntLit(0), k), Lt(k, len0), App("itemsEq", SBool, ex.abstractItem(ex.readElem(st, v0.(*SliceVal), k).(*IfaceVal)), x)))
		ex.Call(st, w.lookupFn("(*ItemCollection).Append"), []Value{cp, one()}, nil)
		v1 := ex.heapGet(st, cell)
		len1 := sliceLen(v1.(*SliceVal))
		has1 := ex.Call(st, w.lookupFn("(ItemCollection).Contains"), []Value{v1, xi}, nil).(*Term)
		ex.Call(st, w.lookupFn("(*ItemCollection).Remove"), []Value{cp, xi}, nil)
		v2 := ex.heapGet(st, cell)
		len2 := sliceLen(v2.(*SliceVal))
		has2 := ex.Call(st, w.lookupFn("(ItemCollection).Contains"), []Value{v2, xi}, nil).(*Term)
		a, b, d := FreshBound("a", SItem), FreshBound("b", SItem), FreshBound("d", SItem)
		eq := func(p, q *Term) *Term { return App("itemsEq", SBool, p, q) }
		equiv := And(Forall([]*Term{a}, eq(a, a)), Forall([]*Term{a, b}, Implies(eq(a, b), eq(b, a))),
			Forall([]*Term{a, b, d}, Implies(And(eq(a, b), eq(b, d)), eq(a, d))))
		i, j := FreshBound("i", SInt), FreshBound("j", SInt)
		el := func(v Value, n *Term) *Term { return ex.abstractItem(ex.readElem(st, v.(*SliceVal), n).(*IfaceVal)) }
		distinct0 := Forall([]*Term{i, j}, Implies(And(Le(IntLit(0), i), Lt(i, j), Lt(j, len0)), Not(eq(el(v0, i), el(v0, j)))))
		common := append([]*Term{ex.NoPanic(), st.pc, equiv, distinct0}, ex.assumes...)
		for _, so := range ex.sideObls {
			c.Add(&Obligation{Name: "C13/laws/loop/" + so.Name, Group: "C13/laws", Common: append([]*Term{eq(x, x)}, ex.assumes...), Hyps: []*Term{so.Hyp}, Goal: so.Goal, Pos: so.Pos})
		}
		add := func(name string, hyps []*Term, goal *Term) {
			c.Add(&Obligation{Name: "C13/laws/" + name, Group: "C13/laws", Common: common, Hyps: hyps, Goal: goal, Pos: "Append;Contains;Remove;Contains on the real code",
				Funcs: []string{"(*ItemCollection).Append", "(ItemCollection).Contains", "(*ItemCollection).Remove"}})
		}
		add("appended-is-contained", nil, has1)
		add("append-present-changes-nothing", []*Term{present0}, Eq(len1, len0))
		add("append-absent-grows-by-one", []*Term{Not(present0)}, Eq(len1, Add(len0, IntLit(1))))
		// NOT claimed: 'removed is not contained' (Not(has2)). It follows from Remove's proved contract (the last equal
		// member is deleted, the tail shifted) and the distinctness precondition, but the quantified VC is solver-
		// unstable here (discharged in some runs in 5 s, not within 300 s in others), so it is left as an on-paper
		// corollary rather than an obligation that may raise an alarm on an unchanged tree.
		_ = has2
		add("remove-shrinks-by-one", nil, Eq(len2, Sub(len1, IntLit(1))))
	})
	for _, o := range c.Obls {
		if o.Replay == nil && !o.ExpectSat {
			o.Replay = c13Replay
		}
	}
}

// c13Replay: the quantified obligations carry no witness values; the replay drives every collection
// kind with all operation sequences of length <= 4 over a pool of three items of mixed shapes on the
// real code and compares with the insertion-ordered reference set.
const c13ReplaySrc = `package activitypub

import "testing"

type verifColl interface {
	Append(...Item) error
	Contains(Item) bool
	Count() uint
	Collection() ItemCollection
}

func TestVerifReplay(t *testing.T) {
	pool := []Item{IRI("https://example.com/actors/10"), &Object{ID: "https://example.com/actors/1", Type: NoteType},
		&Actor{ID: "https://example.com/c", Type: PersonType}, &Activity{ID: "https://example.com/d", Type: CreateType}}
	id := func(it Item) IRI { return it.GetLink() }
	kinds := map[string]func() verifColl{
		"ItemCollection":        func() verifColl { return &ItemCollection{} },
		"IRIs":                  func() verifColl { return &IRIs{} },
		"Collection":            func() verifColl { return &Collection{} },
		"CollectionPage":        func() verifColl { return &CollectionPage{} },
		"OrderedCollection":     func() verifColl { return &OrderedCollection{} },
		"OrderedCollectionPage": func() verifColl { return &OrderedCollectionPage{} },
	}
	type op struct {
		kind string // append | append3 | remove
		i    int
	}
	var ops []op
	for i := range pool {
		ops = append(ops, op{"append", i}, op{"remove", i})
	}
	ops = append(ops, op{"append3", 0}, op{"append3", 1})
	var seqs [][]op
	var gen func(cur []op, n int)
	gen = func(cur []op, n int) {
		seqs = append(seqs, append([]op{}, cur...))
		if n == 0 {
			return
		}
		for _, o := range ops {
			gen(append(cur, o), n-1)
		}
	}
	gen(nil, 3)
	for name, mk := range kinds {
		for _, seq := range seqs {
			c := mk()
			var model []IRI
			has := func(x IRI) int {
				for k, m := range model {
					if m == x {
						return k
					}
				}
				return -1
			}
			for _, o := range seq {
				switch o.kind {
				case "append":
					_ = c.Append(pool[o.i])
					if has(id(pool[o.i])) < 0 {
						model = append(model, id(pool[o.i]))
					}
				case "append3":
					args := []Item{pool[o.i], pool[(o.i+1)%len(pool)], pool[(o.i+2)%len(pool)], pool[o.i]} // the first once more: one call naming an item twice
					_ = c.Append(args...)
					for _, a := range args {
						if has(id(a)) < 0 {
							model = append(model, id(a))
						}
					}
				case "remove":
					if name == "IRIs" {
						continue
					}
					col, err := ToItemCollection(c.(Item))
					if err != nil || col == nil {
						t.Fatalf("%s: ToItemCollection: %v", name, err)
					}
					col.Remove(pool[o.i])
					if k := has(id(pool[o.i])); k >= 0 {
						model = append(model[:k:k], model[k+1:]...)
					}
				}
				if int(c.Count()) != len(model) {
					t.Fatalf("%s after %v: Count() = %d, the insertion-ordered set has %d members %v; contents %v", name, seq, c.Count(), len(model), model, c.Collection())
				}
				for k, m := range c.Collection() {
					if k >= len(model) || id(m) != model[k] {
						t.Fatalf("%s after %v: contents %v, the insertion-ordered set is %v", name, seq, c.Collection(), model)
					}
				}
				for _, p := range pool {
					if c.Contains(p) != (has(id(p)) >= 0) {
						t.Fatalf("%s after %v: Contains(%s) = %v, the insertion-ordered set is %v", name, seq, id(p), c.Contains(p), model)
					}
				}
			}
		}
	}
}
`

func c13Replay(map[string]string) string { return c13ReplaySrc }
