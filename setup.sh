#!/bin/sh
# Build govc offline from files on disk only.
set -e
cd "$(dirname "$0")/govc"
export GOFLAGS=-mod=mod GOPROXY=off GOSUMDB=off GOTOOLCHAIN=local
go build -o ../bin/govc .
